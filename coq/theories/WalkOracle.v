(* A VERIFIED exhaustive oracle for integer walk decompositions of small instances of the cyclic class: the least number of
   source-to-sink walks with positive integer weights that explain an integer flow on the edges that are not ignored.  The search is
   finite and provably exhaustive: a walk of positive weight passes a kept edge at most f(e) times and a source/sink edge at most once,
   so ALL candidate walks are enumerated by extending walks along edges with remaining capacity; weights range over 1..max f; the
   k-tuples are searched with the residual flow. *)
From Coq Require Import List NArith ZArith Bool Arith Lia.
Import ListNotations.
From FP Require Import Lin PathEnc Euler EulerProofs1 EulerProofs4 PathEncComplete Dilworth.
From FP Require WalkWidthCaps DomSpec.
Set Default Timeout 60.
Local Open Scope nat_scope.

Section Oracle.
  Variable E : list PathEnc.edge.           (* the edges of the s-t graph *)
  Variables s t : node.
  Variable kept : list PathEnc.edge.        (* the edges whose flow has to be explained *)
  Variable f : PathEnc.edge -> nat.

  Definition cap0 (e : PathEnc.edge) : nat := if mem_edge e kept then f e else 1.
  Definition dec (cap : PathEnc.edge -> nat) (e : PathEnc.edge) : PathEnc.edge -> nat :=
    fun x => if edge_eqb x e then cap x - 1 else cap x.
  Definition tot (cap : PathEnc.edge -> nat) : nat := fold_right (fun e a => cap e + a) 0 E.

  (* every walk from v to t that passes each edge at most cap(e) times *)
  Fixpoint walks_from (cap : PathEnc.edge -> nat) (fuel : nat) (v : node) : list (list node) :=
    match fuel with
    | O => []
    | S n => (if (v =? t)%N then [[t]] else []) ++
             flat_map (fun e => if (fst e =? v)%N && (0 <? cap e) then map (cons v) (walks_from (dec cap e) n (snd e)) else []) E
    end.

  Lemma tot_dec_le cap e : tot (dec cap e) <= tot cap.
  Proof. unfold tot. induction E as [|x l IH]; cbn [fold_right]; [lia|]. unfold dec at 1. destruct (edge_eqb x e); lia. Qed.
  Lemma tot_dec_lt cap e : In e E -> 0 < cap e -> tot (dec cap e) < tot cap.
  Proof.
    unfold tot. induction E as [|x l IH]; intros Hin Hc; [destruct Hin|]. cbn [fold_right].
    pose proof (tot_dec_le cap e) as Hle. unfold tot in Hle.
    destruct Hin as [->|Hin].
    - unfold dec at 1. rewrite (proj2 (edge_eqb_eq e e) eq_refl).
      assert (fold_right (fun e0 a => dec cap e e0 + a) 0 l <= fold_right (fun e0 a => cap e0 + a) 0 l).
      { clear. induction l as [|y l IH]; cbn [fold_right]; [lia|]. unfold dec at 1. destruct (edge_eqb y e); lia. }
      lia.
    - specialize (IH Hin Hc). unfold dec at 1. destruct (edge_eqb x e); lia.
  Qed.

  Lemma walks_from_sound : forall fuel cap v P, In P (walks_from cap fuel v) ->
    hd_error P = Some v /\ last P v = t /\ incl (pairs P) E.
  Proof.
    induction fuel as [|n IH]; intros cap v P H; [destruct H|]. cbn [walks_from] in H. apply in_app_or in H. destruct H as [H|H].
    - destruct (N.eqb_spec v t) as [->|_]; [|destruct H]. destruct H as [<-|[]]. split; [reflexivity|]. split; [reflexivity|intros e []].
    - apply in_flat_map in H. destruct H as (e & He & H). destruct ((fst e =? v)%N && (0 <? cap e)) eqn:Q; [|destruct H].
      apply andb_true_iff in Q. destruct Q as [Q _]. apply N.eqb_eq in Q. apply in_map_iff in H. destruct H as (P' & <- & HP').
      destruct (IH _ _ _ HP') as (Hh & Hl & Hi). destruct P' as [|u m]; [discriminate|]. cbn in Hh. injection Hh as ->.
      split; [reflexivity|]. split; [rewrite !last_cons_default; rewrite ?last_cons_default in Hl; exact Hl|].
      rewrite pairs_cons2. intros x [<-|Hx]; [destruct e; cbn in *; subst; exact He|apply Hi; exact Hx].
  Qed.

  Lemma walks_from_complete : forall m v cap fuel, last (v :: m) v = t -> incl (pairs (v :: m)) E ->
    (forall e, count_e e (pairs (v :: m)) <= cap e) -> tot cap < fuel -> In (v :: m) (walks_from cap fuel v).
  Proof.
    induction m as [|u m IH]; intros v cap fuel Hl Hi Hc Hf; (destruct fuel as [|n]; [lia|]); cbn [walks_from]; apply in_or_app.
    - left. cbn in Hl. subst v. rewrite N.eqb_refl. left. reflexivity.
    - right. rewrite pairs_cons2 in Hi, Hc. assert (He : In (v, u) E) by (apply Hi; left; reflexivity).
      assert (Hcap : 0 < cap (v, u)).
      { specialize (Hc (v, u)). cbn [count_e] in Hc. rewrite (proj2 (eqe_true (v, u) (v, u)) eq_refl) in Hc. lia. }
      apply in_flat_map. exists (v, u). split; [exact He|]. cbn [fst snd]. rewrite N.eqb_refl. rewrite (proj2 (Nat.ltb_lt _ _) Hcap). cbn [andb].
      apply in_map. apply IH.
      + rewrite <- Hl. rewrite !last_cons_default. reflexivity.
      + intros x Hx. apply Hi. right. exact Hx.
      + intros e. specialize (Hc e). cbn [count_e] in Hc. unfold dec. destruct (edge_eqb e (v, u)) eqn:Q.
        * apply edge_eqb_eq in Q. subst e. rewrite (proj2 (eqe_true (v, u) (v, u)) eq_refl) in Hc. lia.
        * destruct (eqe (v, u) e) eqn:Q2; [apply eqe_true in Q2; subst e; rewrite (proj2 (edge_eqb_eq _ _) eq_refl) in Q; discriminate|lia].
      + pose proof (tot_dec_lt cap (v, u) He Hcap). lia.
  Qed.

  Definition walks : list (list node) := walks_from cap0 (S (tot cap0)) s.
  Definition maxf : nat := fold_right (fun e a => Nat.max (f e) a) 0 kept.
  Definition cands : list (list node * nat) := flat_map (fun p => map (fun w => (p, w)) (seq 1 maxf)) walks.

  Definition contrib (c : list node * nat) (e : PathEnc.edge) : nat := snd c * count_e e (pairs (fst c)).
  Fixpoint total (l : list (list node * nat)) (e : PathEnc.edge) : nat :=
    match l with [] => 0 | c :: r => contrib c e + total r e end.

  Fixpoint search (k : nat) (r : PathEnc.edge -> nat) : bool :=
    match k with
    | O => forallb (fun e => r e =? 0) kept
    | S k' => existsb (fun c => forallb (fun e => contrib c e <=? r e) kept && search k' (fun e => r e - contrib c e)) cands
    end.

  Lemma search_spec : forall k r, search k r = true <->
    exists l, length l = k /\ incl l cands /\ forall e, In e kept -> total l e = r e.
  Proof.
    induction k as [|k IH]; intros r; cbn [search].
    - rewrite forallb_forall. split.
      + intros H. exists []. split; [reflexivity|]. split; [intros x []|]. intros e He. cbn. symmetry. apply Nat.eqb_eq. apply H. exact He.
      + intros (l & Hl & _ & H) e He. destruct l; [|discriminate]. apply Nat.eqb_eq. rewrite <- (H e He). reflexivity.
    - rewrite existsb_exists. split.
      + intros (c & Hc & Q). apply andb_true_iff in Q. destruct Q as [Q1 Q2]. rewrite forallb_forall in Q1. apply IH in Q2.
        destruct Q2 as (l & Hl & Hin & Ht). exists (c :: l). split; [cbn; lia|]. split; [intros x [<-|Hx]; [exact Hc|apply Hin; exact Hx]|].
        intros e He. cbn [total]. rewrite (Ht e He). specialize (Q1 e He). apply Nat.leb_le in Q1. lia.
      + intros (l & Hl & Hin & Ht). destruct l as [|c l]; [discriminate|]. exists c. split; [apply Hin; left; reflexivity|]. apply andb_true_iff. split.
        * apply forallb_forall. intros e He. apply Nat.leb_le. specialize (Ht e He). cbn [total] in Ht. lia.
        * apply IH. exists l. split; [cbn in Hl; lia|]. split; [intros x Hx; apply Hin; right; exact Hx|].
          intros e He. specialize (Ht e He). cbn [total] in Ht. lia.
  Qed.

  (* the least k <= kmax, from below *)
  Fixpoint first_k (n k : nat) : option nat :=
    match n with O => None | S n' => if search k f then Some k else first_k n' (S k) end.
  Definition min_wfd (kmax : nat) : option nat := first_k (S kmax) 0.

  Lemma first_k_spec : forall n k, match first_k n k with
    | Some j => k <= j < k + n /\ search j f = true /\ forall i, k <= i < j -> search i f = false
    | None => forall i, k <= i < k + n -> search i f = false end.
  Proof.
    induction n as [|n IH]; intros k; cbn [first_k]; [intros i Hi; lia|]. destruct (search k f) eqn:Q.
    - split; [lia|]. split; [exact Q|intros i Hi; lia].
    - specialize (IH (S k)). destruct (first_k n (S k)) as [j|].
      + destruct IH as (H1 & H2 & H3). split; [lia|]. split; [exact H2|]. intros i Hi. destruct (Nat.eq_dec i k) as [->|Hne]; [exact Q|apply H3; lia].
      + intros i Hi. destruct (Nat.eq_dec i k) as [->|Hne]; [exact Q|apply IH; lia].
  Qed.

  (* ---- what it decides ---- *)
  Definition st_walkn (p : list node) : Prop := hd_error p = Some s /\ last p s = t /\ incl (pairs p) E.
  (* an integer walk decomposition: walks with positive integer weights that explain f on the kept edges *)
  Definition iwd (l : list (list node * nat)) : Prop :=
    (forall c, In c l -> st_walkn (fst c) /\ 1 <= snd c) /\ forall e, In e kept -> total l e = f e.

  Hypothesis Hkept : incl kept E.
  (* the edges that are not kept are source or sink edges; nothing enters the source, nothing leaves the sink *)
  Hypothesis Hst : forall e, In e E -> ~ In e kept -> fst e = s \/ snd e = t.
  Hypothesis Hs : forall e, In e E -> snd e <> s.
  Hypothesis Ht : forall e, In e E -> fst e <> t.

  Lemma max_ge_gen (l : list PathEnc.edge) e : In e l -> f e <= fold_right (fun e a => Nat.max (f e) a) 0 l.
  Proof. induction l as [|x l IH]; intros H; [destruct H|]. cbn [fold_right]. destruct H as [->|H]; [lia|]. specialize (IH H). lia. Qed.
  Lemma maxf_ge e : In e kept -> f e <= maxf.
  Proof. apply max_ge_gen. Qed.
  Lemma contrib_le_total c e : forall l, In c l -> contrib c e <= total l e.
  Proof. induction l as [|x l IH]; intros H; [destruct H|]. cbn [total]. destruct H as [->|H]; [lia|]. specialize (IH H). lia. Qed.
  Lemma conn_into a b : conn E a b -> a = b \/ exists x, In (x, b) E.
  Proof.
    intros (m & Hm & Lm). destruct m as [|y r]; [left; exact Lm|right]. destruct (walk_last_edge r a y) as (x & Hx).
    exists x. apply Hm. rewrite <- Lm. rewrite (last_cons_default (y :: r) a a). rewrite last_cons_default in Hx |- *. exact Hx.
  Qed.
  Lemma st_edge_once p e : st_walkn p -> In e E -> ~ In e kept -> count_e e (pairs p) <= 1.
  Proof.
    intros (_ & _ & Hi) He Hn. destruct (Nat.le_gt_cases (count_e e (pairs p)) 1) as [H|H]; [exact H|exfalso].
    pose proof (WalkWidthCaps.twice_closes E e p Hi H) as Hc. destruct (Hst e He Hn) as [Es|Et].
    - destruct (conn_into _ _ Hc) as [X|(x & Hx)]; [apply (Hs e He); congruence|]. rewrite Es in Hx. exact (Hs (x, s) Hx eq_refl).
    - rewrite Et in Hc. destruct (WalkWidthCaps.conn_first_edge E t (fst e) Hc) as [X|(y & Hy)]; [exact (Ht e He (eq_sym X))|exact (Ht (t, y) Hy eq_refl)].
  Qed.

  Lemma cands_sound c : In c cands -> st_walkn (fst c) /\ 1 <= snd c.
  Proof.
    unfold cands. intros H. apply in_flat_map in H. destruct H as (p & Hp & H). apply in_map_iff in H. destruct H as (w & <- & Hw).
    apply in_seq in Hw. cbn [fst snd]. split; [|lia]. exact (walks_from_sound _ _ _ _ Hp).
  Qed.
  Lemma in_cands p w : st_walkn p -> (forall e, count_e e (pairs p) <= cap0 e) -> 1 <= w <= maxf -> In (p, w) cands.
  Proof.
    intros (Hh & Hl & Hi) Hc Hw. unfold cands. apply in_flat_map. exists p. split; [|apply in_map; apply in_seq; lia].
    destruct p as [|a m]; [discriminate|]. cbn in Hh. injection Hh as ->. unfold walks. apply walks_from_complete; try assumption. lia.
  Qed.

  Lemma iwd_in_cands l : iwd l -> exists l', length l' <= length l /\ incl l' cands /\ forall e, In e kept -> total l' e = f e.
  Proof.
    intros [Hw Hf]. set (useful := fun c : list node * nat => existsb (fun e => 0 <? count_e e (pairs (fst c))) kept).
    exists (filter useful l). split; [|split].
    - clear. induction l as [|x l IH]; cbn [filter length]; [lia|]. destruct (useful x); cbn [length]; lia.
    - intros [p w] Hc. apply filter_In in Hc. destruct Hc as [Hc Hu]. destruct (Hw _ Hc) as [Hp Hw1]. cbn [fst snd] in *.
      unfold useful in Hu. apply existsb_exists in Hu. destruct Hu as (e0 & He0 & Q). apply Nat.ltb_lt in Q. cbn [fst] in Q.
      apply in_cands; [exact Hp| |].
      + intros e. unfold cap0. destruct (mem_edge e kept) eqn:M.
        * apply mem_edge_In in M. pose proof (contrib_le_total (p, w) e l Hc) as H. rewrite (Hf e M) in H. unfold contrib in H. cbn [fst snd] in H. nia.
        * destruct (in_dec DomSpec.edge_dec e E) as [HeE|HnE].
          -- apply (st_edge_once p e Hp HeE). intros X. apply mem_edge_In in X. congruence.
          -- rewrite WalkWidthCaps.count_e_notin; [lia|]. intros X. apply HnE. apply (proj2 (proj2 Hp)). exact X.
      + split; [exact Hw1|]. pose proof (contrib_le_total (p, w) e0 l Hc) as H. rewrite (Hf e0 He0) in H. unfold contrib in H. cbn [fst snd] in H.
        pose proof (maxf_ge e0 He0). nia.
    - intros e He. rewrite <- (Hf e He). clear - He. induction l as [|c l IH]; [reflexivity|]. cbn [filter]. destruct (useful c) eqn:U; cbn [total]; rewrite IH; [reflexivity|].
      unfold useful in U. assert (Z : count_e e (pairs (fst c)) = 0).
      { destruct (count_e e (pairs (fst c))) eqn:C; [reflexivity|]. assert (X : existsb (fun e => 0 <? count_e e (pairs (fst c))) kept = true).
        { apply existsb_exists. exists e. split; [exact He|]. apply Nat.ltb_lt. lia. } congruence. }
      unfold contrib. rewrite Z. lia.
  Qed.

  Lemma cands_iwd l : incl l cands -> (forall e, In e kept -> total l e = f e) -> iwd l.
  Proof. intros Hin Hf. split; [intros c Hc; apply cands_sound; apply Hin; exact Hc|exact Hf]. Qed.

  (* the oracle returns the least number of walks of an integer walk decomposition, None if there is none with at most kmax walks *)
  Theorem min_wfd_correct kmax :
    match min_wfd kmax with
    | Some k => k <= kmax /\ (exists l, iwd l /\ length l = k) /\ (forall l, iwd l -> k <= length l)
    | None => forall l, iwd l -> kmax < length l
    end.
  Proof.
    unfold min_wfd. pose proof (first_k_spec (S kmax) 0) as H. destruct (first_k (S kmax) 0) as [k|].
    - destruct H as (H1 & H2 & H3). split; [lia|]. split.
      + apply search_spec in H2. destruct H2 as (l & Hl & Hin & Hf). exists l. split; [apply cands_iwd; assumption|exact Hl].
      + intros l Hl. destruct (iwd_in_cands l Hl) as (l' & Hlen & Hin & Hf).
        assert (S' : search (length l') f = true) by (apply search_spec; exists l'; auto).
        destruct (Nat.lt_ge_cases (length l') k) as [Hlt|Hge]; [rewrite (H3 (length l') ltac:(lia)) in S'; discriminate|lia].
    - intros l Hl. destruct (iwd_in_cands l Hl) as (l' & Hlen & Hin & Hf).
      assert (S' : search (length l') f = true) by (apply search_spec; exists l'; auto).
      destruct (Nat.lt_ge_cases kmax (length l')) as [Hlt|Hge]; [lia|]. rewrite (H (length l') ltac:(lia)) in S'. discriminate.
  Qed.
End Oracle.

(* ---- executable form: the kept edges are the edges that are neither source nor sink edges (no user ignore list), the flow an
   association list ---- *)
Definition kept_of (E : list PathEnc.edge) (s t : node) : list PathEnc.edge :=
  filter (fun e => negb ((fst e =? s)%N || (snd e =? t)%N)) E.
Definition fnat (fl : list (PathEnc.edge * nat)) (e : PathEnc.edge) : nat :=
  match find (fun x => edge_eqb (fst x) e) fl with Some x => snd x | None => 0 end.
Definition wfd_premises (E : list PathEnc.edge) (s t : node) : bool :=
  forallb (fun e => negb (snd e =? s)%N && negb (fst e =? t)%N) E.
Definition min_wfd_model (E : list PathEnc.edge) (s t : node) (fl : list (PathEnc.edge * nat)) (kmax : nat) : option nat :=
  if wfd_premises E s t then min_wfd E s t (kept_of E s t) (fnat fl) kmax else None.

Theorem min_wfd_model_correct E s t fl kmax : wfd_premises E s t = true ->
  let kept := kept_of E s t in let f := fnat fl in
  match min_wfd_model E s t fl kmax with
  | Some k => k <= kmax /\ (exists l, iwd E s t kept f l /\ length l = k) /\ (forall l, iwd E s t kept f l -> k <= length l)
  | None => forall l, iwd E s t kept f l -> kmax < length l
  end.
Proof.
  intros Hp kept f. subst kept f. unfold min_wfd_model. rewrite Hp. unfold wfd_premises in Hp. rewrite forallb_forall in Hp.
  apply (min_wfd_correct E s t (kept_of E s t) (fnat fl)); unfold kept_of.
  - intros e He Hn. destruct ((fst e =? s)%N || (snd e =? t)%N) eqn:Q.
    + apply orb_true_iff in Q. destruct Q as [Q|Q]; apply N.eqb_eq in Q; auto.
    + exfalso. apply Hn. apply filter_In. split; [exact He|]. rewrite Q. reflexivity.
  - intros e He. specialize (Hp e He). apply andb_true_iff in Hp. destruct Hp as [Q _]. apply negb_true_iff, N.eqb_neq in Q. exact Q.
  - intros e He. specialize (Hp e He). apply andb_true_iff in Hp. destruct Hp as [_ Q]. apply negb_true_iff, N.eqb_neq in Q. exact Q.
Qed.

(* non-vacuity: the self-loop graph 1 -> 0, 0 -> 0, 0 -> 2 (source 1, sink 2) with flow 2 on the loop: one walk of weight 1 that takes the
   loop twice explains it; with flow 1 on the loop and ... *)
Example loop_oracle :
  min_wfd_model [(0, 0); (1, 0); (0, 2)]%N 1%N 2%N [((0, 0)%N, 2)] 3 = Some 1 /\
  min_wfd_model [(0, 0); (1, 0); (0, 2)]%N 1%N 2%N [] 3 = Some 0 /\
  wfd_premises [(0, 0); (1, 0); (0, 2)]%N 1%N 2%N = true.
Proof. vm_compute. auto. Qed.
