(* Model of AbstractWalkModelDiGraph._reconstruct_eulerian_walk (prototype). *)
From Coq Require Import List NArith Bool Arith Lia.
Import ListNotations.

Notation node := N.
Definition edge := (node * node)%type.
Definition graph := list edge.          (* residual multigraph: one entry per traversal still to place,
                                           in the order Python appended them to the adjacency lists *)

Definition eqe (e1 e2 : edge) : bool := (fst e1 =? fst e2)%N && (snd e1 =? snd e2)%N.

(* adjacency-list pop(): the LAST edge whose tail is u *)
Fixpoint pop_out (g : graph) (u : node) : option (node * graph) :=
  match g with
  | [] => None
  | (a, b) :: r =>
      match pop_out r u with
      | Some (v, r') => Some (v, (a, b) :: r')
      | None => if (a =? u)%N then Some (b, r) else None
      end
  end.

(* phase 1 / generic greedy trail: follow unused edges until stuck.
   returns remaining graph, vertices appended to the walk, vertices pushed on the stack (in push order) *)
Fixpoint trail (fuel : nat) (g : graph) (cur : node) : option (graph * list node * list node) :=
  match fuel with
  | O => None
  | S f =>
      match pop_out g cur with
      | None => Some (g, [], [])
      | Some (nxt, g1) =>
          match trail f g1 nxt with
          | None => None
          | Some (g', w, st) => Some (g', nxt :: w, cur :: st)
          end
      end
  end.

(* _build_closed_walk_from_vertex: as trail, but stop at the first return to start *)
Fixpoint closed_from (fuel : nat) (g : graph) (start cur : node) : option (graph * list node * list node) :=
  match fuel with
  | O => None
  | S f =>
      match pop_out g cur with
      | None => Some (g, [], [])
      | Some (nxt, g1) =>
          if (nxt =? start)%N then Some (g1, [nxt], [cur])
          else match closed_from f g1 start nxt with
               | None => None
               | Some (g', w, st) => Some (g', nxt :: w, cur :: st)
               end
      end
  end.

(* walk[idx+1:idx+1] = closed[1:]  with idx = walk.index(v) *)
Fixpoint splice (w : list node) (v : node) (c : list node) : list node :=
  match w with
  | [] => []
  | x :: r => if (x =? v)%N then x :: c ++ r else x :: splice r v c
  end.

Definition has_out (g : graph) (u : node) : bool :=
  existsb (fun e => (fst e =? u)%N) g.

(* phase 2; the stack is a list with its top at the head *)
Fixpoint phase2 (fuel efuel : nat) (g : graph) (w : list node) (stack : list node) : option (graph * list node) :=
  match fuel with
  | O => None
  | S f =>
      match stack with
      | [] => Some (g, w)
      | v :: st =>
          if has_out g v then
            match closed_from efuel g v v with
            | None => None
            | Some (g', c, pushed) => phase2 f efuel g' (splice w v c) (rev pushed ++ st)
            end
          else phase2 f efuel g w st
      end
  end.

Definition reconstruct (g : graph) (s : node) : option (graph * list node) :=
  let n := S (length g) in
  match trail n g s with
  | None => None
  | Some (g1, w, st) => phase2 (2 * n) n g1 (s :: w) (rev st)
  end.

(* quick sanity check against the Python run recorded while probing *)
Definition ex_edges : list (node * node * nat) :=
  [(0,1,1%nat);(1,2,2%nat);(1,1,3%nat);(1,4,1%nat);(2,1,2%nat);(2,3,2%nat);(3,2,2%nat);(4,6,1%nat);(5,0,1%nat)]%N.
Definition residual (es : list (node * node * nat)) : graph :=
  flat_map (fun '(u, v, m) => repeat (u, v) m) es.
Example ex_run : option_map snd (reconstruct (residual ex_edges) 5%N)
  = Some [5; 0; 1; 2; 1; 2; 3; 2; 3; 2; 1; 1; 1; 1; 4; 6]%N.
Proof. vm_compute. reflexivity. Qed.

(* ------------------------------------------------------------------------------------------
   get_solution_walks for one layer: residual multigraph from the (rounded) solver values,
   reconstruction, stripping of source and sink.  Values arrive as rationals; Python's round()
   is round-half-to-even. *)
From Coq Require Import ZArith QArith.

Definition round_half_even (q : Q) : Z :=
  let n := Qnum q in let d := Zpos (Qden q) in
  let fl := (n / d)%Z in
  let r2 := (2 * (n - fl * d))%Z in          (* twice the remainder, compared with d *)
  if (r2 <? d)%Z then fl
  else if (d <? r2)%Z then (fl + 1)%Z
  else if Z.even fl then fl else (fl + 1)%Z.

Definition residual_q (es : list (edge * Q)) : graph :=
  flat_map (fun '(e, q) => repeat e (Z.to_nat (round_half_even q))) es.

Definition last_node (w : list node) (d : node) : node := last w d.

(* Python: if len(walk) >= 2 and walk[0] == s and walk[-1] == t: walk[1:-1]
           elif walk == [s]: []   else: walk *)
Definition strip_st (s t : node) (w : list node) : list node :=
  match w with
  | a :: (_ :: _) as r =>
      if ((a =? s) && (last r a =? t))%N then removelast r else w
  | [a] => if (a =? s)%N then [] else w
  | [] => w
  end.

(* result: (number of residual edges left unused, walk handed to the user); None = out of fuel *)
Definition solution_walk (es : list (edge * Q)) (s t : node) : option (nat * list node) :=
  match reconstruct (residual_q es) s with
  | None => None
  | Some (g', w) => Some (length g', strip_st s t w)
  end.
