(* EncKlaeTransfer.v — the LP that the GENERATED encoders hand to the solver for kLeastAbsErrors (what Gen_encode_paths.fn, then
   Gen_encode_klae.fn / Gen_encode_klae_given.fn, then Gen_encode_klae_obj.fn emit, chained as the constructor calls them: the index lists
   and variables _encode_paths returns are the ones the error encoder receives, edge_indexes_basic / edge_errors_vars it assigns are the ones
   the objective reads) admits exactly the assignments of the hand-written ErrEnc.encode_klae and has its objective; hence the headline
   theorems of C07 hold of the encoders as they are NOW: gen_klae_optimal (C07_klae_optimal), gen_klae_enc_sound, gen_klae_given_optimal.
   w_max and edges_to_ignore are the values the constructor computes (ErrEnc.w_max / ign_all; tied by the E1 stream, not regenerated).
   Compiled after EncPathsSpec / EncKlaeSpec / EncKlaeGivenSpec / EncKlaeObjSpec in the scratch build directory; not part of coq/theories. *)
From Coq Require Import List NArith ZArith QArith Qabs Bool Lia Lqa Permutation.
Import ListNotations.
From FP Require Import Lin Blocks BlocksProofs PathEnc PathEncProofs PathEncComplete Euler EulerProofs1 EulerProofs4 DagDecode ErrEnc ErrEncProofs ErrEncComplete ErrEncKlae ErrEncGiven PyRt PyLin.
From FPGen Require EncCommon Gen_encode_paths Gen_encode_klae Gen_encode_klae_given Gen_encode_klae_obj EncPathsSpec EncKlaeSpec EncKlaeGivenSpec EncKlaeObjSpec.
Local Open Scope Q_scope.

Definition cl_of (B : path_inst) : option Q := match p_len B with None => None | Some _ => Some (p_cov B) end.
Definition lens_of (B : path_inst) : list (N * N * Q) := match p_len B with None => [] | Some l => l end.
Lemma inst_of : forall B, EncPathsSpec.inst (p_graph B) (p_k B) (p_allow_empty B) (p_cons B) (p_cov B) (cl_of B) (lens_of B) = B.
Proof. intros [G k ae cons cov [l|]]; reflexivity. Qed.
Definition cons_on_edges (B : path_inst) : Prop := EncPathsSpec.cons_on_edges (p_graph B) (p_cons B).
Definition lp (cs : list col) (rs : list row) : milp := {| cols := cs; rows := rs; obj := []; maximize := false |}.

Lemma gen_paths_out : forall B la rev, wf_graph (p_graph B) -> cons_on_edges B ->
  exists rowsP pidx six svars,
    Gen_encode_paths.fn (p_graph B) (Z.of_nat (p_k B)) (p_allow_empty B) (p_cons B) (p_cov B) (cl_of B) la false (lens_of B) rev
      = (RetNone, base_cols B, rowsP, EncCommon.eidx (p_graph B) (p_k B), pidx, six, EncCommon.eidx (p_graph B) (p_k B), svars, [], []) /\
    forall a, Forall (sat_row a) rowsP <-> Forall (sat_row a) (base_rows B).
Proof.
  intros B la rev W Hc. pose proof (EncPathsSpec.gen_encode_paths_spec (p_graph B) (p_k B) (p_allow_empty B) (p_cons B) (p_cov B) (cl_of B) la (lens_of B) rev W Hc) as H.
  cbv zeta in H. rewrite inst_of in H. exact H.
Qed.

(* ---------------------------------------------------------------- _encode_paths, _encode_leastabserrors_decomposition, _encode_objective *)
Definition gen_klae_run (I : err_inst) la rev colsP rowsP colsE rowsE ob : Prop :=
  let B := e_base I in let G := eG I in let k := eK I in
  exists t1 t2 t3 t4 t5,
    Gen_encode_paths.fn G (Z.of_nat k) (p_allow_empty B) (p_cons B) (p_cov B) (cl_of B) la false (lens_of B) rev
      = (RetNone, colsP, rowsP, EncCommon.eidx G k, t1, t2, EncCommon.eidx G k, t3, t4, t5) /\
    Gen_encode_klae.fn G (Z.of_nat k) (EncCommon.eidx G k) (w_max I) (ign_all I) (EncCommon.eidx G k) (EncKlaeSpec.pidx k) [] [] (e_flow I) (e_int I)
      = (RetNone, colsE, rowsE, EncCommon.eidx G k, EncKlaeSpec.pidx k, basic_edges I, basic_edges I) /\
    Gen_encode_klae_obj.fn (basic_edges I) (basic_edges I) (e_scale I) = (RetNone, [], [], Some (ob, false)).

Theorem gen_klae_lp : forall (I : err_inst) la rev,
  wf_graph (eG I) -> cons_on_edges (e_base I) -> e_given I = None -> (1 <= eK I)%nat -> EncKlaeSpec.flows_present I ->
  exists colsP rowsP colsE rowsE ob,
    gen_klae_run I la rev colsP rowsP colsE rowsE ob /\
    (forall a, sat a (lp (colsP ++ colsE) (rowsP ++ rowsE)) <-> sat a (encode_klae I)) /\
    (forall a, leval a ob == objective a (encode_klae I)).
Proof.
  intros I la rev W Hc Hg Hk Hf.
  destruct (gen_paths_out (e_base I) la rev W Hc) as (rowsP & t1 & t2 & t3 & EP & HP).
  destruct (EncKlaeSpec.gen_encode_klae_spec I Hg Hk Hf) as (rowsE & EE & HE).
  destruct (EncKlaeObjSpec.gen_klae_obj_inst I) as (ob & EO & HO & _).
  exists (base_cols (e_base I)), rowsP, (klae_cols I), rowsE, ob. split; [|split; [|exact HO]].
  - exists t1, t2, t3, [], []. split; [exact EP|]. split; [exact EE | exact EO].
  - intro a. unfold sat, lp, encode_klae; cbn [cols rows]. rewrite !Forall_app, HP, HE. reflexivity.
Qed.
Print Assumptions gen_klae_lp.

(* whatever the generated encoders return on the instance IS that LP *)
Lemma gen_klae_run_lp : forall (I : err_inst) la rev colsP rowsP colsE rowsE ob,
  wf_graph (eG I) -> cons_on_edges (e_base I) -> e_given I = None -> (1 <= eK I)%nat -> EncKlaeSpec.flows_present I ->
  gen_klae_run I la rev colsP rowsP colsE rowsE ob ->
  (forall a, sat a (lp (colsP ++ colsE) (rowsP ++ rowsE)) <-> sat a (encode_klae I)) /\ (forall a, leval a ob == objective a (encode_klae I)).
Proof.
  intros I la rev colsP rowsP colsE rowsE ob W Hc Hg Hk Hf (t1 & t2 & t3 & t4 & t5 & EP & EE & EO).
  destruct (gen_klae_lp I la rev W Hc Hg Hk Hf) as (cP & rP & cE & rE & ob' & (u1 & u2 & u3 & u4 & u5 & EP' & EE' & EO') & Hs & Ho).
  cbv zeta in EP, EP'. rewrite EP in EP'. cbv zeta in EE, EE'. rewrite EE in EE'. rewrite EO in EO'.
  injection EP' as -> -> _ _ _ _ _. injection EE' as -> ->. injection EO' as ->. split; assumption.
Qed.

(* C07_klae_optimal about the LP of the generated encoders: an optimal satisfying assignment has the minimal total scaled absolute error *)
Theorem gen_klae_optimal : forall (I : err_inst) la rev (a : var -> Q) (rank : node -> nat) (Rm : nat) colsP rowsP colsE rowsE ob,
  e_given I = None -> wf_graph (eG I) -> p_allow_empty (e_base I) = false ->
  (forall u v, In (u, v) (PathEnc.g_edges (eG I)) -> (rank u < rank v)%nat) -> (forall v, (rank v <= Rm)%nat) ->
  klae_side I -> EncKlaeSpec.flows_present I ->
  gen_klae_run I la rev colsP rowsP colsE rowsE ob ->
  let L := lp (colsP ++ colsE) (rowsP ++ rowsE) in
  sat a L -> (forall b, sat b L -> leval a ob <= leval b ob) ->
  (exists P w, st_paths (eG I) (eK I) P /\ adm_weights I w /\ constraints_covered (e_base I) P /\ klae_cost I P w == leval a ob) /\
  (forall P w, st_paths (eG I) (eK I) P -> adm_weights I w -> constraints_covered (e_base I) P -> leval a ob <= klae_cost I P w).
Proof.
  intros I la rev a rank Rm colsP rowsP colsE rowsE ob Hg W Hae Hrank HR Hside Hf Hrun L Hsat Hopt.
  assert (Hc : cons_on_edges (e_base I)) by (intros c e H1 H2; exact (proj1 (proj1 Hside c e H1 H2))).
  assert (Hk : (1 <= eK I)%nat) by (exact (proj2 (proj2 (proj2 Hside)))).
  destruct (gen_klae_run_lp I la rev colsP rowsP colsE rowsE ob W Hc Hg Hk Hf Hrun) as [Hs Ho].
  destruct (klae_optimal I a rank Rm Hg W Hae Hrank HR Hside (proj1 (Hs a) Hsat)) as [(P & w & H1 & H2 & H3 & H4) Hmin].
  { intros b Hb. rewrite <- (Ho a), <- (Ho b). apply Hopt. apply Hs. exact Hb. }
  split.
  - exists P, w. split; [exact H1 | split; [exact H2 | split; [exact H3 | rewrite (Ho a); exact H4]]].
  - intros P' w' A1 A2 A3. rewrite (Ho a). exact (Hmin P' w' A1 A2 A3).
Qed.
Print Assumptions gen_klae_optimal.

(* C07_klae_enc_sound about the LP of the generated encoders *)
Theorem gen_klae_enc_sound : forall (I : err_inst) la rev (a : var -> Q) (rank : node -> nat) (Rm : nat) colsP rowsP colsE rowsE ob,
  let G := eG I in let k := eK I in let E := PathEnc.g_edges G in let s := PathEnc.g_src G in let t := PathEnc.g_snk G in
  wf_graph G -> cons_on_edges (e_base I) -> p_allow_empty (e_base I) = false -> e_given I = None -> (1 <= k)%nat -> EncKlaeSpec.flows_present I ->
  (forall u v, In (u, v) E -> (rank u < rank v)%nat) -> (forall v, (rank v <= Rm)%nat) ->
  gen_klae_run I la rev colsP rowsP colsE rowsE ob ->
  sat a (lp (colsP ++ colsE) (rowsP ++ rowsE)) ->
  (forall i, In i (layers k) ->
     exists p, decode E (xval a i) t (S Rm) s = Some p /\ last p s = t /\
               Permutation (Sup E (xval a i)) (EulerProofs1.pairs (s :: p)) /\
               (forall e, In e E -> count_e e (EulerProofs1.pairs (s :: p)) = Z.to_nat (xval a i e))) /\
  (forall i, In i (layers k) -> (0 <= a (W i) <= w_max I) /\ (e_int I = true -> is_int (a (W i)))) /\
  (forall e, In e (basic_edges I) ->
     (Qabs (flow_of I e - sumq (fun i => a (W i) * inject_Z (xval a i e)) (layers k)) <= a (Err (fst e) (snd e)))) /\
  (leval a ob == sumq (fun e => scale_of I e * a (Err (fst e) (snd e))) (basic_edges I)).
Proof.
  intros I la rev a rank Rm colsP rowsP colsE rowsE ob G k E s t W Hc Hae Hg Hk Hf Hrank HR Hrun Hsat.
  destruct (gen_klae_run_lp I la rev colsP rowsP colsE rowsE ob W Hc Hg Hk Hf Hrun) as [Hs Ho].
  destruct (klae_enc_sound I a rank Rm W Hae Hg Hrank HR (proj1 (Hs a) Hsat)) as (H1 & H2 & H3 & H4).
  split; [exact H1 | split; [exact H2 | split; [exact H3 | rewrite (Ho a); exact H4]]].
Qed.
Print Assumptions gen_klae_enc_sound.

(* ---------------------------------------------------------------- given weights: _encode_paths, _with_given_weights, _encode_objective *)
Definition gen_klae_given_run (I : err_inst) (ws : list Q) la rev colsP rowsP colsE rowsE ob : Prop :=
  let B := e_base I in let G := eG I in let k := eK I in
  exists t1 t2 t3 t4 t5,
    Gen_encode_paths.fn G (Z.of_nat k) (p_allow_empty B) (p_cons B) (p_cov B) (cl_of B) la false (lens_of B) rev
      = (RetNone, colsP, rowsP, EncCommon.eidx G k, t1, t2, EncCommon.eidx G k, t3, t4, t5) /\
    Gen_encode_klae_given.fn G (Z.of_nat k) (EncCommon.eidx G k) (w_max I) (ign_all I) ws (Z.of_nat (e_korig I)) (p_allow_empty B) (e_flow I) (e_int I)
      = (RetNone, colsE, rowsE, basic_edges I, basic_edges I) /\
    Gen_encode_klae_obj.fn (basic_edges I) (basic_edges I) (e_scale I) = (RetNone, [], [], Some (ob, false)).

Theorem gen_klae_given_lp : forall (I : err_inst) (ws : list Q) la rev,
  wf_graph (eG I) -> cons_on_edges (e_base I) -> e_given I = Some ws -> p_allow_empty (e_base I) = true -> length ws = eK I -> EncKlaeGivenSpec.flows_present I ->
  exists colsP rowsP colsE rowsE ob,
    gen_klae_given_run I ws la rev colsP rowsP colsE rowsE ob /\
    (forall a, sat a (lp (colsP ++ colsE) (rowsP ++ rowsE)) <-> sat a (encode_klae I)) /\
    (forall a, leval a ob == objective a (encode_klae I)).
Proof.
  intros I ws la rev W Hc Hg Hae Hlen Hf.
  destruct (gen_paths_out (e_base I) la rev W Hc) as (rowsP & t1 & t2 & t3 & EP & HP).
  destruct (EncKlaeGivenSpec.gen_encode_klae_given_spec I ws Hg W Hlen Hf) as (rowsE & EE & HE).
  destruct (EncKlaeObjSpec.gen_klae_obj_inst I) as (ob & EO & HO & _).
  exists (base_cols (e_base I)), rowsP, (klae_cols I), rowsE, ob. split; [|split; [|exact HO]].
  - exists t1, t2, t3, [], []. split; [exact EP|]. split; [rewrite Hae; exact EE | exact EO].
  - intro a. unfold sat, lp, encode_klae; cbn [cols rows]. rewrite !Forall_app, HP, HE. reflexivity.
Qed.
Print Assumptions gen_klae_given_lp.

Theorem gen_klae_given_optimal : forall (I : err_inst) (ws : list Q) la rev (a : var -> Q) (rank : node -> nat) (Rm : nat) colsP rowsP colsE rowsE ob,
  e_given I = Some ws -> wf_graph (eG I) -> p_allow_empty (e_base I) = true -> p_cons (e_base I) = [] -> length ws = eK I ->
  (forall u v, In (u, v) (PathEnc.g_edges (eG I)) -> (rank u < rank v)%nat) -> (forall v, (rank v <= Rm)%nat) ->
  (forall e, In e (basic_edges I) -> (0 <= scale_of I e) /\ (e_int I = true -> is_int (flow_of I e))) ->
  (e_int I = true -> forall q, In q ws -> is_int q) -> EncKlaeGivenSpec.flows_present I ->
  gen_klae_given_run I ws la rev colsP rowsP colsE rowsE ob ->
  let L := lp (colsP ++ colsE) (rowsP ++ rowsE) in
  sat a L -> (forall b, sat b L -> leval a ob <= leval b ob) ->
  (exists P, klae_given_choice I ws P /\ gcost I ws P == leval a ob) /\
  (forall P, klae_given_choice I ws P -> leval a ob <= gcost I ws P).
Proof.
  intros I ws la rev a rank Rm colsP rowsP colsE rowsE ob Hg W Hae Hcons Hlen Hrank HR Hsc Hint Hf (t1 & t2 & t3 & t4 & t5 & EP & EE & EO) L Hsat Hopt.
  assert (Hc : cons_on_edges (e_base I)) by (unfold cons_on_edges, EncPathsSpec.cons_on_edges; rewrite Hcons; intros c e []).
  destruct (gen_klae_given_lp I ws la rev W Hc Hg Hae Hlen Hf) as (cP & rP & cE & rE & ob' & (u1 & u2 & u3 & u4 & u5 & EP' & EE' & EO') & Hs & Ho).
  cbv zeta in EP, EP'. rewrite EP in EP'. cbv zeta in EE, EE'. rewrite EE in EE'. rewrite EO in EO'.
  injection EP' as -> -> _ _ _ _ _. injection EE' as -> ->. injection EO' as ->.
  destruct (klae_given_optimal I ws a rank Rm Hg W Hae Hcons Hlen Hrank HR Hsc Hint (proj1 (Hs a) Hsat)) as [(P & H1 & H2) Hmin].
  { intros b Hb. rewrite <- (Ho a), <- (Ho b). apply Hopt. apply Hs. exact Hb. }
  split; [exists P; split; [exact H1 | rewrite (Ho a); exact H2] | intros P' A1; rewrite (Ho a); exact (Hmin P' A1)].
Qed.
Print Assumptions gen_klae_given_optimal.
