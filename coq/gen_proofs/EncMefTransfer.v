(* EncMefTransfer.v — the LP that the GENERATED MinErrorFlow encoders (_encode_flow, then _encode_min_sum_errors_objective) hand to the solver admits
   exactly the assignments of the hand-written MiscEnc.encode_mef and has its objective; hence C16's row / objective theorems hold of the encoders as
   they are NOW: gen_mef_lp, gen_mef_exact (C16_rows_exact).  Compiled after EncMefSpec / EncMefObjSpec in the scratch build directory. *)
From Coq Require Import List NArith ZArith QArith Bool Lia Lqa Permutation.
Import ListNotations.
From FP Require Import Lin Blocks BlocksProofs PathEnc PathEncProofs MiscEnc MiscEncProofs PyRt PyLin.
From FPGen Require EncCommon Gen_encode_mef Gen_encode_mef_obj EncMefSpec EncMefObjSpec.
Local Open Scope Q_scope.

Definition lp (cs : list col) (rs : list row) : milp := {| cols := cs; rows := rs; obj := []; maximize := false |}.

(* ---------------------------------------------------------------- MinErrorFlow: _encode_flow then _encode_min_sum_errors_objective *)
Theorem gen_mef_lp : forall (I : mef_inst) (G : pygraph) (src : N),
  EncMefSpec.mef_graph_ok I G -> mef_ok I = true ->
  (Qlt_bool 0 (mef_lambda I) = true -> mef_src I = Some src /\ In src (mef_nodes I)) ->
  exists rs ob,
    Gen_encode_mef.fn G (mef_ub I) (mef_ignore I) (mef_int I) = (RetNone, mef_cols I, rs, mef_edges I, mef_edges I, mef_edges I) /\
    Gen_encode_mef_obj.fn G (mef_edges I) (mef_edges I) (mef_ignore I) (mef_scale I) (mef_lambda I) src = (RetNone, [], [], Some (ob, false)) /\
    (forall a, sat a (lp (mef_cols I) rs) <-> sat a (encode_mef I)) /\ (forall a, leval a ob == objective a (encode_mef I)).
Proof.
  intros I G src HG Hok Hsrc. destruct (EncMefSpec.gen_encode_mef_spec I G HG Hok) as (rs & E & HR).
  destruct HG as (Hn & He & Hio).
  assert (He' : map fst (PyRt.g_edges G) = mef_edges I) by (rewrite He, map_map; cbn [fst]; apply map_id).
  destruct (EncMefObjSpec.gen_mef_obj_spec I G src He') as (ob & EO & HO & _).
  { intro Hl. destruct (Hsrc Hl) as [Hs Hin]. split; [exact Hs | exact (proj2 (Hio src Hin))]. }
  exists rs, ob. split; [exact E|]. split; [exact EO|]. split; [|exact HO].
  intro a. unfold sat, lp, encode_mef; cbn [cols Lin.rows]. rewrite HR. reflexivity.
Qed.
Print Assumptions gen_mef_lp.

Theorem gen_mef_exact : forall (I : mef_inst) (G : pygraph) rs t1 t2 t3,
  EncMefSpec.mef_graph_ok I G -> mef_ok I = true ->
  Gen_encode_mef.fn G (mef_ub I) (mef_ignore I) (mef_int I) = (RetNone, mef_cols I, rs, t1, t2, t3) ->
  forall a, sat a (lp (mef_cols I) rs) <-> mef_sem I a.
Proof.
  intros I G rs t1 t2 t3 HG Hok E a. destruct (EncMefSpec.gen_encode_mef_spec I G HG Hok) as (rs' & E' & HR).
  rewrite E in E'. injection E' as -> _ _ _. rewrite <- (mef_enc_exact I a). unfold sat, lp, encode_mef; cbn [cols Lin.rows]. rewrite HR. reflexivity.
Qed.
Print Assumptions gen_mef_exact.
