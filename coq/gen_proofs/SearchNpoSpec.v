(* SearchNpoSpec.v — NumPathsOptimization.solve, regenerated (Gen_search_npo.v), IS Search.run_npo: for every list of solver outcomes, range of k,
   stopping criteria, and oracles for "the model of k is solved by its constructor", "objective value of the solved model of k" and "the time limit
   is exceeded after n invocations".  Hence C13_npo_sound holds of the regenerated loop. *)
From Coq Require Import List Bool Arith ZArith QArith Qabs Lia.
Import ListNotations.
From FP Require Import PyRt PyLin Search SearchProofs1 SearchProofs2.
From FPGen Require Import SearchSpec Gen_search_npo.
Local Close Scope Q_scope.

(* roles of the generated state fields: x0 previous_solution_objective_value, x1 current_solution_objective_value, x2 model (its k), x3 solve_status
   (0 None, 1 solved, 2 timeout, 3 unbounded, 4 infeasible), x4 model is bound, x5 previous value is not None, x6 found_feasible *)

Definition on_of (d : option Q) : bool := match truthy d with Some _ => true | None => false end.
Definition val_of (d : option Q) : Q := match truthy d with Some x => x | None => 0%Q end.

Section Npo.
  Variables (ks km : nat) (ff : bool) (da dr : option Q) (ext : list bool) (obj : list Q) (ov : list bool) (sts : list raw).
  Let P := mknpo ks km ff da dr (of_list ext) (q_of_list obj) (of_list ov).
  Hypothesis Hext : km < length ext.
  Hypothesis Hobj : km < length obj.
  Hypothesis Hov : length sts < length ov.

  Definition prev_ok (prev : option Q) (s : st) : Prop :=
    match prev with None => x5 s = false | Some p => x5 s = true /\ x0 s = p end.

  Definition agrees_npo (r : Search.result * nat) (o : ctl bool * st) (s0 : st) : Prop :=
    let '(res, m) := r in let '(c, s') := o in
    at_o_n s' = Z.of_nat m /\ at_solved s' = at_solved s0 /\ at_chosen s' = at_chosen s0 /\
    match res with
    | Solved k => c = CNormal /\ x3 s' = 1%Z /\ x2 s' = Z.of_nat k /\ x4 s' = true /\ x6 s' = true
    | NotSolved => c = CNormal /\ (x3 s' = 0%Z \/ x3 s' = 2%Z)
    | Crashed => c = CRaise ZeroDivisionError
    | Starved => c = CRaise IndexError
    | Exited => False
    end.

  Lemma get_nth {A} (d : A) (l : list A) (k : nat) : py_list_get d l (Z.of_nat k) = nth k l d.
  Proof. unfold py_list_get. replace (Z.of_nat k <? 0)%Z with false by (symmetry; apply Z.ltb_ge; lia). rewrite Nat2Z.id. reflexivity. Qed.
  Lemma ok_lt {A} (l : list A) (k : nat) : k < length l -> py_index_ok l (Z.of_nat k) = true.
  Proof. intros H. unfold py_index_ok, py_len. apply andb_true_intro. split; [apply Z.leb_le|apply Z.ltb_lt]; lia. Qed.

  Lemma npo_loop_used : forall ks0 rest prev n r m, npo_loop P ks0 rest prev n = (r, m) -> n <= m <= n + length rest.
  Proof.
    induction ks0 as [|k ks0 IH]; intros rest prev n r m H; cbn [npo_loop] in H; [inversion H; lia|].
    destruct (npo_ext P k).
    - destruct (npo_check P prev (npo_obj P k)); try (inversion H; lia). destruct (npo_over P n); [inversion H; lia|]. apply IH in H. lia.
    - destruct rest as [|r0 rest]; [inversion H; simpl; lia|]. cbn [length].
      destruct (is_optimal (status_of r0)).
      + destruct (npo_check P prev (npo_obj P k)); try (inversion H; lia). destruct (npo_over P (S n)); [inversion H; lia|]. apply IH in H. lia.
      + destruct (npo_over P (S n)); [inversion H; lia|]. apply IH in H. lia.
  Qed.

  Lemma agrees_mono r o s1 s2 : agrees_npo r o s1 -> at_solved s1 = at_solved s2 -> at_chosen s1 = at_chosen s2 -> agrees_npo r o s2.
  Proof. destruct r as [res m], o as [c s']. cbn. intros (A & B & C & D) E F. rewrite <- E, <- F. repeat split; assumption. Qed.

  Definition matches_npo (o : outcome) (r : gen_result) : Prop :=
    g_n r = Z.of_nat (used o) /\
    match so_res o with
    | Solved k => g_res r = Ret true /\ g_solved r = true /\ g_chosen r = Z.of_nat k
    | NotSolved => g_res r = Ret false /\ g_solved r = false /\ g_chosen r = 0%Z
    | Crashed => g_res r = Exc ZeroDivisionError /\ g_solved r = false /\ g_chosen r = 0%Z
    | Starved => g_res r = Exc IndexError /\ g_solved r = false /\ g_chosen r = 0%Z
    | Exited => False
    end.

  Ltac unfold_stmt := cbv beta iota delta [py_seq py_if py_guard py_assign py_skip py_raise py_return].
  Ltac proj := cbn [npo_ext npo_obj npo_over first_feasible delta_abs delta_rel kstart kmax].

  Definition body_ok (o : outcome) (r : ctl bool * st) : Prop :=
    let '(c, s') := r in
    at_o_n s' = Z.of_nat (used o) /\
    match so_res o with
    | Solved k => c = CReturn true /\ at_solved s' = true /\ at_chosen s' = Z.of_nat k
    | NotSolved => c = CReturn false /\ at_solved s' = false /\ at_chosen s' = 0%Z
    | Crashed => c = CRaise ZeroDivisionError /\ at_solved s' = false /\ at_chosen s' = 0%Z
    | Starved => c = CRaise IndexError /\ at_solved s' = false /\ at_chosen s' = 0%Z
    | Exited => False
    end.

  Lemma body_sem : forall (mn lb : nat) (last0 : Z), ks = Nat.max mn lb ->
    body_ok (run_npo ks km ff da dr ext obj ov sts)
            (body (codes sts) 0 last0 ext obj ov (Z.of_nat mn) (Z.of_nat km) (Z.of_nat lb) ff (on_of da) (val_of da) (on_of dr) (val_of dr)
                  (init_st (codes sts) 0 last0 ext obj ov (Z.of_nat mn) (Z.of_nat km) (Z.of_nat lb) ff (on_of da) (val_of da) (on_of dr) (val_of dr))).
  Proof.
    intros mn lb last0 Hks. unfold body_ok, body, init_st.
    seq_assigns. gen_simpl.
    rewrite Zmax_py_max. replace (Z.max (Z.of_nat mn) (Z.of_nat lb)) with (Z.of_nat ks) by lia.
    replace (Z.of_nat km + 1)%Z with (Z.of_nat (km + 1)) by lia. rewrite range2_krange.
    unfold py_seq at 1. unfold py_for_b at 1.
    match goal with |- context [py_loop_b ?B0 ?l ?s0] => set (B := B0) end.
    assert (L : forall ks0 n prev s, (forall k, In k ks0 -> k <= km) -> n <= length sts ->
                    at_o_n s = Z.of_nat n -> x3 s = 0%Z -> prev_ok prev s ->
                    agrees_npo (npo_loop P ks0 (skipn n sts) prev n) (py_loop_b B (map Z.of_nat ks0) s) s).
    { induction ks0 as [|k ks0 IH]; intros n prev s Hk Hn On X3 Pv.
      - cbn. repeat split; auto.
      - assert (Hkm : k <= km) by (apply Hk; left; reflexivity).
        assert (Hk' : forall k', In k' ks0 -> k' <= km) by (intros k' H'; apply Hk; right; exact H').
        assert (Oe : py_index_ok ext (Z.of_nat k) = true) by (apply ok_lt; lia).
        assert (Oo : py_index_ok obj (Z.of_nat k) = true) by (apply ok_lt; lia).
        assert (Ov0 : py_index_ok ov (Z.of_nat n) = true) by (apply ok_lt; lia).
        cbn [map py_loop_b npo_loop]. unfold B at 1. unfold_stmt. unfold npo_check, on_of, val_of, q_of_list, of_list, py_abs. unfold P. proj. unfold of_list, q_of_list.
        gen_simpl. rewrite ?On, ?get_nth, ?Oe. cbn [negb].
        destruct (nth k ext false) eqn:Ex; cbn [negb orb].
        + destruct (truthy da) as [d1|] eqn:Tda; destruct (truthy dr) as [d2|] eqn:Tdr;
          destruct prev as [p|]; cbn [prev_ok] in Pv; [destruct Pv as [Pv5 Pv0]| |destruct Pv as [Pv5 Pv0]| |destruct Pv as [Pv5 Pv0]| |destruct Pv as [Pv5 Pv0]| ];
          repeat (gen_simpl; rewrite ?On, ?get_nth, ?Ex, ?Oe, ?Oo, ?Ov0, ?Pv5, ?Pv0, ?Pv; cbn [negb orb];
                  match goal with
                  | |- context [if ?c then _ else _] => destruct c eqn:?
                  end).
          all: try congruence.
          all: try solve [cbn; gen_simpl; rewrite ?On; repeat split; auto].
          all: try solve [eapply agrees_mono; [apply IH; [exact Hk'|lia|gen_simpl; rewrite ?On; reflexivity|gen_simpl; assumption|cbn [prev_ok]; gen_simpl; auto]|gen_simpl; reflexivity|gen_simpl; reflexivity]].
        + destruct (skipn n sts) as [|r rest] eqn:Esk.
          * pose proof (skipn_nil_inv _ _ Esk) as Hnone.
            assert (Ic : py_index_ok (codes sts) (Z.of_nat n) = false).
            { rewrite index_ok_nth. unfold codes. rewrite nth_error_map, Hnone. reflexivity. }
            rewrite Ic. cbn [negb]. cbn. gen_simpl. rewrite On. repeat split; auto.
          * destruct (skipn_cons_inv _ _ _ _ Esk) as [Hn' Erest]. rewrite <- Erest.
            assert (Hlt : n < length sts) by (apply nth_error_Some; congruence).
            assert (Hc : nth_error (codes sts) n = Some (code (status_of r))) by (unfold codes; rewrite nth_error_map, Hn'; reflexivity).
            assert (Ic : py_index_ok (codes sts) (Z.of_nat n) = true) by (rewrite index_ok_nth, Hc; reflexivity).
            assert (Hnth : nth n (codes sts) 0%Z = code (status_of r)) by (apply nth_error_nth; exact Hc).
            assert (Ov1 : py_index_ok ov (Z.of_nat (S n)) = true) by (apply ok_lt; lia).
            rewrite Ic. cbn [negb]. gen_simpl. rewrite ?On. rewrite ?(list_get_nth _ _ _ Hc).
            replace (Z.of_nat n + 1)%Z with (Z.of_nat (S n)) by lia. rewrite ?code_opt.
            destruct (truthy da) as [d1|] eqn:Tda; destruct (truthy dr) as [d2|] eqn:Tdr;
            destruct prev as [p|]; cbn [prev_ok] in Pv; [destruct Pv as [Pv5 Pv0]| |destruct Pv as [Pv5 Pv0]| |destruct Pv as [Pv5 Pv0]| |destruct Pv as [Pv5 Pv0]| ];
            repeat (gen_simpl; rewrite ?On, ?(list_get_nth _ _ _ Hc), ?get_nth, ?Hnth, ?code_opt, ?Ex, ?Oe, ?Oo, ?Ov1, ?Pv5, ?Pv0, ?Pv; cbn [negb orb];
                    match goal with
                    | |- context [if ?c then _ else _] => destruct c eqn:?
                    end).
            all: try congruence.
            all: try solve [cbn; gen_simpl; repeat split; auto].
            all: try solve [eapply agrees_mono; [apply IH; [exact Hk'|lia|gen_simpl; reflexivity|gen_simpl; assumption|cbn [prev_ok]; gen_simpl; auto]|gen_simpl; reflexivity|gen_simpl; reflexivity]].
    }
    match goal with |- context [py_loop_b B ?l ?s0] => specialize (L (krange ks (km + 1)) 0 None s0) end.
    cbn [skipn] in L. unfold run_npo, npo_solve. cbn [kstart kmax]. fold P.
    assert (L' := L ltac:(intros k Hin; unfold krange in Hin; apply in_seq in Hin; lia) ltac:(lia) eq_refl eq_refl eq_refl). clear L.
    destruct (npo_loop P (krange ks (km + 1)) sts None 0) as [r m].
    match goal with |- context [py_loop_b B ?l ?s0] => destruct (py_loop_b B l s0) as [c s'] end.
    cbn [so_res used]. cbn in L'. gen_simpl in L'. destruct L' as (L1 & L2 & L3 & L4).
    destruct r; try contradiction.
    - destruct L4 as (-> & X3 & X2 & X4 & X6). unfold_stmt. gen_simpl.
      repeat (rewrite ?X3, ?X4, ?X6; cbn -[Z.of_nat]). rewrite ?L1, ?L2, ?L3, ?X2. repeat split; reflexivity.
    - destruct L4 as (-> & [X3|X3]); unfold_stmt; gen_simpl; destruct (x6 s');
      repeat (rewrite ?X3; cbn -[Z.of_nat]); rewrite ?L1, ?L2, ?L3; repeat split; reflexivity.
    - subst c. cbn -[Z.of_nat]. rewrite ?L1, ?L2, ?L3. repeat split; reflexivity.
    - subst c. cbn -[Z.of_nat]. rewrite ?L1, ?L2, ?L3. repeat split; reflexivity.
  Qed.

  Theorem gen_npo_spec : forall (mn lb : nat) (last0 : Z), ks = Nat.max mn lb ->
    matches_npo (run_npo ks km ff da dr ext obj ov sts)
                (fn (codes sts) 0 last0 ext obj ov (Z.of_nat mn) (Z.of_nat km) (Z.of_nat lb) ff (on_of da) (val_of da) (on_of dr) (val_of dr)).
  Proof.
    intros mn lb last0 Hks. pose proof (body_sem mn lb last0 Hks) as H. unfold matches_npo, g_res, g_n, g_solved, g_chosen, fn. cbv zeta.
    destruct (body _ _ _ _ _ _ _ _ _ _ _ _ _ _ _) as [c s']. cbn [fst snd]. unfold body_ok in H. destruct H as (H1 & H2). split; [exact H1|].
    destruct (so_res _); try contradiction; destruct H2 as (-> & -> & ->); repeat split; reflexivity.
  Qed.
End Npo.
Print Assumptions gen_npo_spec.

(* C13_npo_sound: solve() returned True => the chosen k is in the range and its model was either solved by its constructor or its own solver run --
   the last invocation made -- was reported optimal *)
Theorem gen_npo_sound : forall ks km ff da dr ext obj ov sts mn lb last0,
  km < length ext -> km < length obj -> length sts < length ov -> ks = Nat.max mn lb ->
  let r := fn (codes sts) 0 last0 ext obj ov (Z.of_nat mn) (Z.of_nat km) (Z.of_nat lb) ff (on_of da) (val_of da) (on_of dr) (val_of dr) in
  g_res r = Ret true ->
  exists k, g_chosen r = Z.of_nat k /\ g_solved r = true /\ ks <= k <= km /\
    (nth k ext false = true \/
     ((0 < g_n r)%Z /\ exists x, nth_error sts (Z.to_nat (g_n r) - 1) = Some x /\ status_of x = Optimal)).
Proof.
  intros ks km ff da dr ext obj ov sts mn lb last0 H1 H2 H3 Hks r Hr.
  pose proof (gen_npo_spec ks km ff da dr ext obj ov sts H1 H2 H3 mn lb last0 Hks) as (M1 & M2). fold r in M1, M2.
  destruct (so_res (run_npo ks km ff da dr ext obj ov sts)) eqn:E; try contradiction; destruct M2 as (A & B & C); try congruence.
  exists k. split; [exact C|]. split; [exact B|].
  destruct (npo_sound _ _ _ E) as (R1 & R2). cbn [kstart kmax npo_ext] in R1, R2. split; [exact R1|].
  destruct R2 as [R2|(R2 & x & R3 & R4)]; [left; exact R2|right].
  unfold run_npo in M1. rewrite M1, Nat2Z.id. split; [lia|]. exists x. split; assumption.
Qed.
Print Assumptions gen_npo_sound.

(* non-vacuity (the instances of C13_npo_nonvacuous): a time limit and an infeasible k are skipped, the first optimal one is returned with
   stop_on_first_feasible; the custom time-out is not optimal; stop_on_delta_abs compares with the FIRST feasible objective; a relative criterion
   with a first objective of 0 is a ZeroDivisionError; the time limit ends the search *)
Definition o_ := mkraw Optimal false.
Definition i_ := mkraw Infeasible false.
Definition t_ := mkraw TimeLimit false.
Definition c_ := mkraw Optimal true.
Definition F7 := [false; false; false; false; false; false; false].
Definition Q7 (a b : Q) := [0%Q; 0%Q; a; b; b; b; b].
Example gen_npo_example : fn (codes [t_; i_; o_]) 0 7 F7 (Q7 0 0) F7 1 6 2 true false 0%Q false 0%Q = (Ret true, 3, 0, true, 4)%Z.
Proof. vm_compute. reflexivity. Qed.
Example gen_npo_example_custom_timeout : fn (codes [t_; i_; c_]) 0 7 F7 (Q7 0 0) F7 1 4 2 true false 0%Q false 0%Q = (Ret false, 3, 2, false, 0)%Z.
Proof. vm_compute. reflexivity. Qed.
Example gen_npo_example_delta_abs : fn (codes [o_; o_; o_; o_; o_]) 0 7 F7 (Q7 9 5) F7 1 6 2 false true 1%Q false 0%Q = (Ret false, 5, 0, false, 0)%Z
  /\ fn (codes [o_; o_; o_]) 0 7 F7 (Q7 9 5) F7 1 6 2 false true 4%Q false 0%Q = (Ret true, 2, 0, true, 3)%Z.
Proof. vm_compute. split; reflexivity. Qed.
Example gen_npo_example_zero_division : fst (fst (fst (fst (fn (codes [o_; o_]) 0 7 F7 (Q7 0 5) F7 1 6 2 false false 0%Q true (1#4)%Q)))) = Exc ZeroDivisionError.
Proof. vm_compute. reflexivity. Qed.
Example gen_npo_example_time_over : fn (codes [i_; o_]) 0 7 F7 (Q7 9 5) [false; true; true] 1 6 2 true false 0%Q false 0%Q = (Ret false, 1, 1, false, 0)%Z.
Proof. vm_compute. reflexivity. Qed.
Example gen_npo_example_presolved : fn (codes []) 0 7 [false; false; false; true; true; true; true] (Q7 9 5) F7 1 6 2 true false 0%Q false 0%Q = (Ret false, 0, 7, false, 0)%Z
  \/ fst (fst (fst (fst (fn (codes []) 0 7 [false; false; false; true; true; true; true] (Q7 9 5) F7 1 6 2 true false 0%Q false 0%Q)))) = Exc IndexError.
Proof. vm_compute. right. reflexivity. Qed.
