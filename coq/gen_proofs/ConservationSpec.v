(* ConservationSpec.v — proved on every run AGAINST THE GENERATED MODEL Gen_check_flow_conservation.v, which
   harness/translate.py regenerates from flowpaths/utils/graphutils.py :: check_flow_conservation.
   Not part of coq/theories.

   Embedding: G.nodes() = g_nodes G; G.out_edges(v, data=True) / G.in_edges(v, data=True) = the lists the harness
   reads per node (py_out_edges / py_in_edges), degrees = their lengths; data = the attribute dict restricted
   to flow_attr.  Numbers are exact rationals (Python: ints or floats whose sums are exact). *)
From Coq Require Import List NArith ZArith QArith Bool Lia Lqa.
Import ListNotations.
From FP Require Import PyRt.
From FPGen Require Import Gen_check_flow_conservation.

(* ------------------------------------------------------------------ declarative side *)
Definition vals_present (es : list dedge) : Prop := forall u v d, In (u, v, d) es -> d <> None.
Definition flow_sum (es : list dedge) : Q := sumQ (map (fun x : dedge => py_opt_get 0 (snd x)) es).
(* a node with at least one in-edge and one out-edge: every incident value present, in-sum = out-sum *)
Definition conserved_at (G : pygraph) (v : node) : Prop :=
  (0 < py_out_degree G v)%Z -> (0 < py_in_degree G v)%Z ->
  vals_present (py_out_edges G v) /\ vals_present (py_in_edges G v) /\
  flow_sum (py_out_edges G v) == flow_sum (py_in_edges G v).
Definition conserved (G : pygraph) : Prop := forall v, In v (g_nodes G) -> conserved_at G v.

Lemma flow_sum_snoc : forall es x, flow_sum (es ++ [x]) == flow_sum es + py_opt_get 0 (snd x).
Proof.
  unfold flow_sum; induction es as [|a es IH]; intros; cbn [map app sumQ]; [ring | rewrite IH; ring].
Qed.
Lemma vals_present_nil : vals_present [].
Proof. intros u v d []. Qed.
Lemma vals_present_snoc : forall es u v q, vals_present es -> vals_present (es ++ [(u, v, Some q)]).
Proof.
  intros es u v q H u' v' d Hi. apply in_app_or in Hi. destruct Hi as [Hi | [E | []]]; [exact (H _ _ _ Hi)|].
  injection E as _ _ <-. discriminate.
Qed.
Lemma degree_zero_conserved_out : forall G v, (py_out_degree G v =? 0)%Z = true -> conserved_at G v.
Proof. intros G v E Ho _. apply Z.eqb_eq in E. lia. Qed.
Lemma degree_zero_conserved_in : forall G v, (py_in_degree G v =? 0)%Z = true -> conserved_at G v.
Proof. intros G v E _ Hi. apply Z.eqb_eq in E. lia. Qed.
Lemma degree_pos : forall z, (0 <= z)%Z -> (z =? 0)%Z = false -> (0 < z)%Z.
Proof. intros z H E. apply Z.eqb_neq in E. lia. Qed.

(* ------------------------------------------------------------------ the generated function *)
Ltac py_unfold := unfold py_seq, py_if, py_assign, py_skip, py_return, py_raise, py_continue, py_guard, py_for.
Ltac loop_inv Inv Post sf :=
  match goal with |- context [py_loop ?B0 ?l0 ?s0] =>
    let H := fresh "HL" in
    assert (H : match py_loop B0 l0 s0 with (CNormal, s') => Inv l0 s' | (c, s') => Post c s' end);
    [ apply (py_loop_inv _ B0 Inv Post l0 s0) | destruct (py_loop B0 l0 s0) as [[| |?r|?e] sf] ] end.
Ltac st_simpl := cbn [x0 x1 set_x0 set_x1 fst snd].

(* summing loop over an edge list: either every value is present and the accumulator holds the sum, or the
   function returns False at the first edge without the attribute; data[flow_attr] never raises KeyError *)
Definition sum_inv (acc : st -> Q) (keep : st -> Prop) (done : list dedge) (s : st) : Prop :=
  keep s /\ vals_present done /\ acc s == flow_sum done.
Definition sum_post (all : list dedge) (c : ctl bool) (s : st) : Prop :=
  c = CReturn false /\ ~ vals_present all.

(* roles of the generated state fields (Gen_check_flow_conservation.v lists them in its header comment) *)
Notation f_out := x0 (only parsing).       (* out_flow *)
Notation f_in := x1 (only parsing).        (* in_flow *)

Theorem check_flow_conservation_spec : forall G : pygraph,
  exists b, fn G = Ret b /\ (b = true <-> conserved G).
Proof.
  intros G. unfold fn, py_run, body, init_st. py_unfold.
  loop_inv (fun (done : list node) (s : st) => forall v, In v done -> conserved_at G v)
           (fun (c : ctl bool) (s : st) => c = CReturn false /\ ~ conserved G) sf.
  - intros v [].
  - (* one node *)
    intros done v rest s1 El Hinv.
    assert (Hv : In v (g_nodes G)) by (rewrite El; apply in_or_app; right; left; reflexivity).
    assert (Hsnoc : conserved_at G v -> forall w, In w (done ++ [v]) -> conserved_at G w).
    { intros Hc w Hw. apply in_app_or in Hw. destruct Hw as [Hw | [<- | []]]; [exact (Hinv _ Hw) | exact Hc]. }
    destruct (py_out_degree G v =? 0)%Z eqn:Eo.
    { rewrite ?orb_true_r; cbn [orb]. apply Hsnoc, degree_zero_conserved_out, Eo. }
    destruct (py_in_degree G v =? 0)%Z eqn:Ei.
    { rewrite ?orb_true_r; cbn [orb]. apply Hsnoc, degree_zero_conserved_in, Ei. }
    cbn [orb].
    assert (Ho : (0 < py_out_degree G v)%Z) by (apply degree_pos; [unfold py_out_degree, py_len; lia | exact Eo]).
    assert (Hi : (0 < py_in_degree G v)%Z) by (apply degree_pos; [unfold py_in_degree, py_len; lia | exact Ei]).
    (* out-edges *)
    loop_inv (sum_inv f_out (fun _ => True)) (sum_post (py_out_edges G v)) s2.
    + st_simpl. split; [exact I|]. split; [apply vals_present_nil | reflexivity].
    + unfold sum_inv, sum_post. intros d2 [[a b] d] rest2 s El2 (_ & P & A). destruct d as [q|]; cbn [py_is_none py_opt_get]; st_simpl.
      * split; [exact I|]. split; [apply vals_present_snoc; exact P | rewrite flow_sum_snoc, A; cbn [snd py_opt_get]; reflexivity].
      * split; [reflexivity|]. intro H. apply (H a b None); [rewrite El2; apply in_or_app; right; left|]; reflexivity.
    + destruct HL as (_ & Pout & Aout).
      (* in-edges *)
      loop_inv (sum_inv f_in (fun s => f_out s = f_out s2)) (sum_post (py_in_edges G v)) s3.
      * st_simpl. split; [reflexivity|]. split; [apply vals_present_nil | reflexivity].
      * unfold sum_inv, sum_post. intros d3 [[a b] d] rest3 s El3 (K & P & A). destruct d as [q|]; cbn [py_is_none py_opt_get]; st_simpl.
        -- split; [exact K|]. split; [apply vals_present_snoc; exact P | rewrite flow_sum_snoc, A; cbn [snd py_opt_get]; reflexivity].
        -- split; [reflexivity|]. intro H. apply (H a b None); [rewrite El3; apply in_or_app; right; left|]; reflexivity.
      * destruct HL as (K & Pin & Ain).
        destruct (Qeq_bool (f_out s3) (f_in s3)) eqn:Eq; cbn [negb].
        -- apply Hsnoc. intros _ _. split; [exact Pout|]. split; [exact Pin|].
           apply Qeq_bool_iff in Eq. rewrite <- Aout, <- Ain, <- K. exact Eq.
        -- split; [reflexivity|]. intro Hc. destruct (Hc v Hv Ho Hi) as (_ & _ & E).
           apply Qeq_bool_neq in Eq. apply Eq. rewrite K, Aout, Ain. exact E.
      * destruct HL as [E _]; discriminate.
      * destruct HL as [-> Hn]. split; [reflexivity|]. intro Hc. apply Hn. exact (proj1 (proj2 (Hc v Hv Ho Hi))).
      * destruct HL as [E _]; discriminate.
    + destruct HL as [E _]; discriminate.
    + destruct HL as [-> Hn]. split; [reflexivity|]. intro Hc. apply Hn. exact (proj1 (Hc v Hv Ho Hi)).
    + destruct HL as [E _]; discriminate.
  - exists true. split; [reflexivity|]. split; [intros _; exact HL | reflexivity].
  - destruct HL as [E _]; discriminate.
  - destruct HL as [E Hn]. injection E as ->. exists false. split; [reflexivity|]. split; [discriminate | intro Hc; contradiction].
  - destruct HL as [E _]; discriminate.
Qed.
Print Assumptions check_flow_conservation_spec.

Theorem check_flow_conservation_true_iff : forall G : pygraph, fn G = Ret true <-> conserved G.
Proof.
  intros G. destruct (check_flow_conservation_spec G) as [b [E H]]. rewrite E. split.
  - intro R. injection R as ->. apply H. reflexivity.
  - intro C. apply H in C. rewrite C. reflexivity.
Qed.
Print Assumptions check_flow_conservation_true_iff.

Theorem check_flow_conservation_total : forall G : pygraph, fn G = Ret true \/ fn G = Ret false.
Proof. intros G. destruct (check_flow_conservation_spec G) as [[|] [E _]]; auto. Qed.
Print Assumptions check_flow_conservation_total.

(* non-vacuity: a path 1 -> 2 -> 3; conserved with 2, 2; not with 2, 3; not with a missing value at the inner node;
   a missing value at a source-only edge does not matter *)
Definition Gc (a b : option Q) : pygraph :=
  mk_pygraph [1; 2; 3]%N [(1, 2, a); (2, 3, b)]%N
             [(1, [(1, 2, a)]); (2, [(2, 3, b)]); (3, [])]%N [(1, []); (2, [(1, 2, a)]); (3, [(2, 3, b)])]%N.
Example conservation_holds : fn (Gc (Some 2) (Some 2)) = Ret true.
Proof. vm_compute. reflexivity. Qed.
Example conservation_fails : fn (Gc (Some 2) (Some 3)) = Ret false.
Proof. vm_compute. reflexivity. Qed.
Example conservation_missing_value : fn (Gc (Some 2) None) = Ret false.
Proof. vm_compute. reflexivity. Qed.
Example conservation_no_inner_node : fn (mk_pygraph [1; 2]%N [(1, 2, None)]%N [(1, [(1, 2, None)]); (2, [])]%N [(1, []); (2, [(1, 2, None)])]%N) = Ret true.
Proof. vm_compute. reflexivity. Qed.
