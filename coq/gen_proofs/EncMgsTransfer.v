(* EncMgsTransfer.v — the LP that the GENERATED MinGenSet._create_solver(k) hands to the solver (max_multiplicity == 1, no partition constraint) admits
   exactly the assignments of the hand-written MiscEnc.encode_mgs I k; hence C15's theorems hold of the encoder as it is NOW: gen_mgs_lp,
   gen_mgs_gives_generating_multiset (C15_genset_rows_give_generating_multiset), gen_mgs_feasible_iff (C15_model_feasible_iff_generating_multiset).
   Compiled after EncMgsSpec in the scratch build directory; not part of coq/theories. *)
From Coq Require Import List NArith ZArith QArith Bool Lia Lqa.
Import ListNotations.
From FP Require Import Lin Blocks BlocksProofs PathEnc PathEncProofs MiscEnc MiscEncProofs MgsComplete PyRt PyLin.
From FPGen Require EncCommon Gen_encode_mgs EncMgsSpec.
Local Open Scope Q_scope.

Definition lp (cs : list col) (rs : list row) : milp := {| cols := cs; rows := rs; obj := []; maximize := false |}.
Definition gen_mgs_run (I : mgs_inst) (k : nat) cs rs : Prop :=
  exists t1 t2 t3 t4 t5,
    Gen_encode_mgs.fn (Z.of_nat k) (mg_total I) (mg_numbers I) (Z.of_nat (mg_mult I)) (mg_parts I) (mg_int I) = (RetNone, cs, rs, t1, t2, t3, t4, t5).

Theorem gen_mgs_lp : forall (I : mgs_inst) (k : nat) cs rs,
  mult1 I = true -> parts_of I = [] -> gen_mgs_run I k cs rs -> forall a, sat a (lp cs rs) <-> sat a (encode_mgs I k).
Proof.
  intros I k cs rs Hm Hp (t1 & t2 & t3 & t4 & t5 & E) a.
  destruct (EncMgsSpec.gen_encode_mgs_spec I k Hm Hp) as (rows & E' & HR). cbv zeta in E'. rewrite E in E'. injection E' as -> -> _ _ _ _ _.
  unfold sat, lp; cbn [cols Lin.rows]. rewrite HR. reflexivity.
Qed.
Print Assumptions gen_mgs_lp.

Theorem gen_mgs_gives_generating_multiset : forall (I : mgs_inst) (k : nat) cs rs (a : var -> Q),
  mult1 I = true -> parts_of I = [] -> gen_mgs_run I k cs rs -> sat a (lp cs rs) ->
  let g := map (fun i => a (Gen i)) (layers k) in
  length g = k /\ genset (mg_mult I) (mg_numbers I) (mg_total I) g /\ (mg_int I = true -> Forall is_int g).
Proof.
  intros I k cs rs a Hm Hp Hrun Hsat. apply mgs_sound_multiset.
  - unfold mult1 in Hm. apply Nat.eqb_eq in Hm. lia.
  - apply (gen_mgs_lp I k cs rs Hm Hp Hrun a). exact Hsat.
Qed.
Print Assumptions gen_mgs_gives_generating_multiset.

Theorem gen_mgs_feasible_iff : forall (I : mgs_inst) (k : nat) cs rs,
  mult1 I = true -> mg_parts I = None -> gen_mgs_run I k cs rs ->
  ((exists a, sat a (lp cs rs)) <-> exists g, length g = k /\ genset_for I g).
Proof.
  intros I k cs rs Hm Hp Hrun. assert (Hp' : parts_of I = []) by (unfold parts_of; rewrite Hp; reflexivity).
  assert (H1 : (1 <= mg_mult I)%nat) by (unfold mult1 in Hm; apply Nat.eqb_eq in Hm; lia).
  rewrite <- (mgs_feasible_iff I k Hp H1). split; intros [a Ha]; exists a; apply (gen_mgs_lp I k cs rs Hm Hp' Hrun a); exact Ha.
Qed.
Print Assumptions gen_mgs_feasible_iff.
