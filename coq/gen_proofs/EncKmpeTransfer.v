(* EncKmpeTransfer.v — the LP that the GENERATED encoders hand to the solver for kMinPathError without path-length factors (what
   Gen_encode_paths.fn with encode_edge_position = True, then Gen_encode_kmpe.fn / Gen_encode_kmpe_given.fn, then Gen_encode_kmpe_obj.fn emit,
   chained as the constructor calls them) admits exactly the assignments of the hand-written ErrEnc.encode_kmpe and has its objective; hence the
   headline theorems of C08 hold of the encoders as they are NOW: gen_kmpe_optimal (C08_kmpe_optimal), gen_kmpe_given_optimal.
   kMinPathError always switches on the edge-position / path-length block of _encode_paths: gen_kmpe_paths (from EncPathsSpec.gen_encode_paths_pos_spec)
   shows that the generated _encode_paths then emits columns / rows admitting what base ++ ErrEnc.pos_cols / pos_rows admit (paths_pos_ok), given that
   the input table G.reachable_edges_rev_from is what ErrEnc.rev_edges computes (rev_ok: data of stDAG, not regenerated).
   w_max and edges_to_ignore are the values the constructor computes (ErrEnc.w_max / ign_all).  Not part of coq/theories. *)
From Coq Require Import List NArith ZArith QArith Qabs Bool Lia Lqa Permutation.
Import ListNotations.
From FP Require Import Lin Blocks BlocksProofs PathEnc PathEncProofs PathEncComplete ErrEnc ErrEncProofs ErrEncComplete ErrEncOptimal ErrEncGivenMpe PyRt PyLin.
From FPGen Require EncCommon Gen_encode_paths Gen_encode_kmpe Gen_encode_kmpe_given Gen_encode_kmpe_obj EncPathsSpec EncKmpeSpec EncKmpeGivenSpec EncKmpeObjSpec.
Local Open Scope Q_scope.

Definition cl_of (B : path_inst) : option Q := match p_len B with None => None | Some _ => Some (p_cov B) end.
Definition lens_of (B : path_inst) : list (N * N * Q) := match p_len B with None => [] | Some l => l end.
Definition lp (cs : list col) (rs : list row) : milp := {| cols := cs; rows := rs; obj := []; maximize := false |}.

(* what _encode_paths emits with the position block on (kMinPathError always switches it on): EncPathsSpec.gen_encode_paths_pos_spec.
   The length table handed to the encoder is the one of length_attr (la_of / lens_for); when subpath_constraints_coverage_length is used as well, the
   lengths it refers to are that very table (tables_agree).  G.reachable_edges_rev_from (rev) is an input: for the tail u of every edge it must list
   the edges whose head reaches u (EncPathsSpec.rev_ok; computed by stDAG, not regenerated). *)
Definition la_of (M : kmpe_inst) : option unit := match m_len M with None => None | Some _ => Some tt end.
Definition lens_for (M : kmpe_inst) : list (N * N * Q) := match m_len M with None => [] | Some l => l end.
Definition tables_agree (M : kmpe_inst) : Prop := forall l, p_len (e_base (m_err M)) = Some l -> l = lens_for M.
Definition paths_pos_ok (M : kmpe_inst) rev (colsP : list col) (rowsP : list row) (PL : list Z) : Prop :=
  let B := e_base (m_err M) in let G := eG (m_err M) in let k := eK (m_err M) in
  (exists t2 t3 t4,
     Gen_encode_paths.fn G (Z.of_nat k) (p_allow_empty B) (p_cons B) (p_cov B) (cl_of B) (la_of M) true (lens_for M) rev
       = (RetNone, colsP, rowsP, EncCommon.eidx G k, EncKmpeSpec.pidx k, t2, EncCommon.eidx G k, t3, t4, PL)) /\
  (forall a, Forall (sat_col a) colsP <-> Forall (sat_col a) (base_cols B ++ pos_cols M)) /\
  (forall a, Forall (sat_row a) rowsP <-> Forall (sat_row a) (base_rows B ++ pos_rows M)).

Lemma pos_ext : forall M M', eG (m_err M) = eG (m_err M') -> eK (m_err M) = eK (m_err M') -> m_len M = m_len M' -> pos_cols M = pos_cols M' /\ pos_rows M = pos_rows M'.
Proof.
  intros M M' H1 H2 H3. unfold pos_cols, pos_rows, row_pos, row_len, max_length, plen. cbv zeta. rewrite H1, H2, H3. split; reflexivity.
Qed.

Theorem gen_kmpe_paths : forall (M : kmpe_inst) rev,
  wf_graph (eG (m_err M)) -> EncPathsSpec.cons_on_edges (eG (m_err M)) (p_cons (e_base (m_err M))) -> EncPathsSpec.rev_ok (eG (m_err M)) rev -> tables_agree M ->
  exists colsP rowsP, paths_pos_ok M rev colsP rowsP (EncKmpeSpec.pidx (eK (m_err M))).
Proof.
  intros M rev W Hc Hrev Hag. set (B := e_base (m_err M)).
  assert (Hl : EncPathsSpec.lens_ok (la_of M) (lens_for M)) by (unfold EncPathsSpec.lens_ok, la_of, lens_for; destruct (m_len M); [discriminate | reflexivity]).
  pose proof (EncPathsSpec.gen_encode_paths_pos_spec (p_graph B) (p_k B) (p_allow_empty B) (p_cons B) (p_cov B) (cl_of B) (la_of M) (lens_for M) rev W Hc Hrev Hl) as H.
  cbv zeta in H.
  assert (EI : EncPathsSpec.inst (p_graph B) (p_k B) (p_allow_empty B) (p_cons B) (p_cov B) (cl_of B) (lens_for M) = B).
  { unfold EncPathsSpec.inst, cl_of. specialize (Hag). unfold tables_agree in Hag. fold B in Hag. destruct B as [G k ae cons cov [l|]]; cbn [p_len p_graph p_k p_allow_empty p_cons p_cov] in *; [rewrite <- (Hag l eq_refl)|]; reflexivity. }
  rewrite EI in H.
  destruct (pos_ext (EncPathsSpec.kM B (la_of M) (lens_for M)) M) as [EC ER]; [reflexivity | reflexivity | unfold EncPathsSpec.kM, la_of, lens_for; cbn [m_len]; destruct (m_len M); reflexivity |].
  rewrite EC, ER in H. destruct H as (colsP & rowsP & six & svars & E & HC & HR).
  exists colsP, rowsP. split; [exists six, svars, (EncCommon.eidx (p_graph B) (p_k B)); exact E | split; [exact HC | exact HR]].
Qed.
Print Assumptions gen_kmpe_paths.

(* what the generated _encode_paths returned on the instance (no assumption about it) *)
Definition paths_run (M : kmpe_inst) rev (colsP : list col) (rowsP : list row) (PL : list Z) : Prop :=
  let B := e_base (m_err M) in let G := eG (m_err M) in let k := eK (m_err M) in
  exists t1 t2 t3 t4 t5 t6,
    Gen_encode_paths.fn G (Z.of_nat k) (p_allow_empty B) (p_cons B) (p_cov B) (cl_of B) (la_of M) true (lens_for M) rev
      = (RetNone, colsP, rowsP, t1, t2, t3, t4, t5, t6, PL).
Lemma paths_run_ok : forall (M : kmpe_inst) rev colsP rowsP PL,
  wf_graph (eG (m_err M)) -> EncPathsSpec.cons_on_edges (eG (m_err M)) (p_cons (e_base (m_err M))) -> EncPathsSpec.rev_ok (eG (m_err M)) rev -> tables_agree M ->
  paths_run M rev colsP rowsP PL -> paths_pos_ok M rev colsP rowsP PL.
Proof.
  intros M rev colsP rowsP PL W Hc Hrev Hag (t1 & t2 & t3 & t4 & t5 & t6 & E).
  destruct (gen_kmpe_paths M rev W Hc Hrev Hag) as (cP & rP & (u2 & u3 & u4 & E') & HC & HR).
  cbv zeta in E, E'. rewrite E in E'. injection E' as -> -> -> -> -> -> -> -> ->.
  split; [exists u2, u3, u4; exact E | split; assumption].
Qed.

(* ---------------------------------------------------------------- _encode_paths, _encode_minpatherror_decomposition, _encode_objective *)
Definition gen_kmpe_run (M : kmpe_inst) (ranges : list (Q * Q)) (PL : list Z) colsE rowsE ob : Prop :=
  let I := m_err M in let G := eG I in let k := eK I in
  Gen_encode_kmpe.fn G (Z.of_nat k) (EncCommon.eidx G k) (w_max I) (ign_all I) (EncCommon.eidx G k) (EncKmpeSpec.pidx k) (e_scale I) [] ranges PL [] [] (e_flow I) (e_int I)
    = (RetNone, colsE, rowsE, EncKmpeSpec.pidx k, EncCommon.eidx G k, EncKmpeSpec.pidx k, EncCommon.eidx G k, [], []) /\
  Gen_encode_kmpe_obj.fn (Z.of_nat k) (EncKmpeSpec.pidx k) = (RetNone, [], [], Some (ob, false)).

Theorem gen_kmpe_lp : forall (M : kmpe_inst) rev ranges colsP rowsP PL,
  let I := m_err M in
  paths_pos_ok M rev colsP rowsP PL ->
  e_given I = None -> m_pieces M = [] -> (1 <= eK I)%nat -> EncKmpeSpec.flows_present I ->
  exists colsE rowsE ob,
    gen_kmpe_run M ranges PL colsE rowsE ob /\
    (forall a, sat a (lp (colsP ++ colsE) (rowsP ++ rowsE)) <-> sat a (encode_kmpe M)) /\
    (forall a, leval a ob == objective a (encode_kmpe M)).
Proof.
  intros M rev ranges colsP rowsP PL I (_ & HC & HR) Hg Hp Hk Hf.
  destruct (EncKmpeSpec.gen_encode_kmpe_spec M ranges PL Hg Hp Hk Hf) as (rowsE & EE & HE).
  destruct (EncKmpeObjSpec.gen_kmpe_obj_spec M) as (ob & EO & HO & _).
  exists (kmpe_cols M), rowsE, ob. split; [split; [exact EE | exact EO] | split; [|exact HO]].
  intro a. unfold sat, lp, encode_kmpe; cbn [cols rows]. fold I. rewrite !Forall_app, HC, HR, HE, !Forall_app. tauto.
Qed.
Print Assumptions gen_kmpe_lp.

(* C08_kmpe_optimal about the LP of the generated encoders *)
Theorem gen_kmpe_optimal : forall (M : kmpe_inst) rev ranges (a : var -> Q) (rank : node -> nat) (Rm : nat) colsP rowsP PL colsE rowsE ob,
  let I := m_err M in
  e_given I = None -> m_pieces M = [] -> wf_graph (eG I) -> p_allow_empty (e_base I) = false ->
  (forall u v, In (u, v) (PathEnc.g_edges (eG I)) -> (rank u < rank v)%nat) -> (forall v, (rank v <= Rm)%nat) ->
  kmpe_side M -> (1 <= eK I)%nat -> EncKmpeSpec.flows_present I -> EncPathsSpec.rev_ok (eG I) rev -> tables_agree M ->
  paths_run M rev colsP rowsP PL -> gen_kmpe_run M ranges PL colsE rowsE ob ->
  let L := lp (colsP ++ colsE) (rowsP ++ rowsE) in
  sat a L -> (forall b, sat b L -> leval a ob <= leval b ob) ->
  (exists P w sl, kmpe_choice M P w sl /\ sumq sl (layers (eK I)) == leval a ob) /\
  (forall P w sl, kmpe_choice M P w sl -> leval a ob <= sumq sl (layers (eK I))).
Proof.
  intros M rev ranges a rank Rm colsP rowsP PL colsE rowsE ob I Hg Hp W Hae Hrank HR Hside Hk Hf Hrev Hag Hrun (EE & EO) L Hsat Hopt.
  assert (Hpos : paths_pos_ok M rev colsP rowsP PL) by (apply paths_run_ok; try assumption; intros c e H1 H2; exact (proj1 (proj1 Hside c e H1 H2))).
  destruct (gen_kmpe_lp M rev ranges colsP rowsP PL Hpos Hg Hp Hk Hf) as (cE & rE & ob' & (EE' & EO') & Hs & Ho).
  cbv zeta in EE, EE'. rewrite EE in EE'. rewrite EO in EO'. injection EE' as -> ->. injection EO' as ->.
  destruct (kmpe_optimal M a rank Rm Hg Hp W Hae Hrank HR Hside (proj1 (Hs a) Hsat)) as [(P & w & sl & H1 & H2) Hmin].
  { intros b Hb. rewrite <- (Ho a), <- (Ho b). apply Hopt. apply Hs. exact Hb. }
  split; [exists P, w, sl; split; [exact H1 | rewrite (Ho a); exact H2] | intros P' w' sl' A1; rewrite (Ho a); exact (Hmin P' w' sl' A1)].
Qed.
Print Assumptions gen_kmpe_optimal.

(* ---------------------------------------------------------------- given weights *)
Definition gen_kmpe_given_run (M : kmpe_inst) (ws : list Q) (ranges : list (Q * Q)) (PL : list Z) colsE rowsE ob : Prop :=
  let I := m_err M in let G := eG I in let k := eK I in
  Gen_encode_kmpe_given.fn G (Z.of_nat k) (EncCommon.eidx G k) (w_max I) (ign_all I) (EncCommon.eidx G k) (EncKmpeGivenSpec.pidx k) (e_scale I) [] ranges PL ws
      (Z.of_nat (e_korig I)) (p_allow_empty (e_base I)) (e_flow I) (e_int I)
    = (RetNone, colsE, rowsE, EncKmpeGivenSpec.pidx k, EncCommon.eidx G k, [], []) /\
  Gen_encode_kmpe_obj.fn (Z.of_nat k) (EncKmpeSpec.pidx k) = (RetNone, [], [], Some (ob, false)).

Theorem gen_kmpe_given_lp : forall (M : kmpe_inst) (ws : list Q) rev ranges colsP rowsP PL,
  let I := m_err M in
  paths_pos_ok M rev colsP rowsP PL ->
  e_given I = Some ws -> m_pieces M = [] -> wf_graph (eG I) -> p_allow_empty (e_base I) = true -> length ws = eK I -> (1 <= eK I)%nat -> EncKmpeGivenSpec.flows_present I ->
  exists colsE rowsE ob,
    gen_kmpe_given_run M ws ranges PL colsE rowsE ob /\
    (forall a, sat a (lp (colsP ++ colsE) (rowsP ++ rowsE)) <-> sat a (encode_kmpe M)) /\
    (forall a, leval a ob == objective a (encode_kmpe M)).
Proof.
  intros M ws rev ranges colsP rowsP PL I (_ & HC & HR) Hg Hp W Hae Hlen Hk Hf.
  destruct (EncKmpeGivenSpec.gen_encode_kmpe_given_spec M ws ranges PL Hg Hp W Hlen Hk Hf) as (rowsE & EE & HE).
  destruct (EncKmpeObjSpec.gen_kmpe_obj_spec M) as (ob & EO & HO & _).
  exists (kmpe_cols M), rowsE, ob. split; [split; [fold I; rewrite Hae; exact EE | exact EO] | split; [|exact HO]].
  intro a. unfold sat, lp, encode_kmpe; cbn [cols rows]. fold I. rewrite !Forall_app, HC, HR, HE, !Forall_app. tauto.
Qed.
Print Assumptions gen_kmpe_given_lp.

Theorem gen_kmpe_given_optimal : forall (M : kmpe_inst) (ws : list Q) rev ranges (a : var -> Q) (rank : node -> nat) (Rm : nat) colsP rowsP PL colsE rowsE ob,
  let I := m_err M in
  e_given I = Some ws -> m_pieces M = [] -> wf_graph (eG I) -> p_allow_empty (e_base I) = true -> p_cons (e_base I) = [] -> length ws = eK I -> lengths_ok M ->
  (forall u v, In (u, v) (PathEnc.g_edges (eG I)) -> (rank u < rank v)%nat) -> (forall v, (rank v <= Rm)%nat) ->
  (1 <= eK I)%nat -> EncKmpeGivenSpec.flows_present I -> EncPathsSpec.rev_ok (eG I) rev -> tables_agree M ->
  paths_run M rev colsP rowsP PL -> gen_kmpe_given_run M ws ranges PL colsE rowsE ob ->
  let L := lp (colsP ++ colsE) (rowsP ++ rowsE) in
  sat a L -> (forall b, sat b L -> leval a ob <= leval b ob) ->
  (exists P sl, kmpe_given_choice M ws P sl /\ sumq sl (layers (eK I)) == leval a ob) /\
  (forall P sl, kmpe_given_choice M ws P sl -> leval a ob <= sumq sl (layers (eK I))).
Proof.
  intros M ws rev ranges a rank Rm colsP rowsP PL colsE rowsE ob I Hg Hp W Hae Hcons Hlen Hlens Hrank HR Hk Hf Hrev Hag Hrun (EE & EO) L Hsat Hopt.
  assert (Hpos : paths_pos_ok M rev colsP rowsP PL) by (apply paths_run_ok; try assumption; fold I; rewrite Hcons; intros c e []).
  destruct (gen_kmpe_given_lp M ws rev ranges colsP rowsP PL Hpos Hg Hp W Hae Hlen Hk Hf) as (cE & rE & ob' & (EE' & EO') & Hs & Ho).
  cbv zeta in EE, EE'. rewrite EE in EE'. rewrite EO in EO'. injection EE' as -> ->. injection EO' as ->.
  destruct (kmpe_given_optimal M ws a rank Rm Hg Hp W Hae Hcons Hlen Hlens Hrank HR (proj1 (Hs a) Hsat)) as [(P & sl & H1 & H2) Hmin].
  { intros b Hb. rewrite <- (Ho a), <- (Ho b). apply Hopt. apply Hs. exact Hb. }
  split; [exists P, sl; split; [exact H1 | rewrite (Ho a); exact H2] | intros P' sl' A1; rewrite (Ho a); exact (Hmin P' sl' A1)].
Qed.
Print Assumptions gen_kmpe_given_optimal.
