(* EncMscTransfer.v — the LP that the GENERATED MinSetCover._encode_set_cover hands to the solver admits exactly the assignments of the hand-written
   MiscEnc.encode_msc and has its objective; hence C15's set-cover theorems hold of the encoder as it is NOW: gen_msc_exact
   (C15_setcover_rows_exact + C15_setcover_objective_is_weight), gen_msc_no_model (no model in MiscEnc <-> IndexError in the encoder).
   Compiled after EncMscSpec in the scratch build directory; not part of coq/theories. *)
From Coq Require Import List NArith ZArith QArith Bool Lia Lqa Permutation.
Import ListNotations.
From FP Require Import Lin Blocks BlocksProofs PathEnc PathEncProofs MiscEnc MiscEncProofs PyRt PyLin.
From FPGen Require EncCommon Gen_encode_msc EncMscSpec.
Local Open Scope Q_scope.

Definition lp (cs : list col) (rs : list row) : milp := {| cols := cs; rows := rs; obj := []; maximize := false |}.

(* ---------------------------------------------------------------- MinSetCover *)
Theorem gen_msc_exact : forall (I : msc_inst) cs rs ob t1 t2,
  Gen_encode_msc.fn (sc_universe I) (sc_subsets I) (msc_weights I) = (RetNone, cs, rs, Some (ob, false), t1, t2) ->
  forall a, (sat a (lp cs rs) <-> msc_sem I a) /\
            leval a ob == sumq (fun iw => snd iw * a (Sub (fst iw))) (zipn 0 (firstn (length (sc_subsets I)) (msc_weights I))).
Proof.
  intros I cs rs ob t1 t2 E a. pose proof (EncMscSpec.gen_encode_msc_spec I) as H. cbv zeta in H.
  destruct (encode_msc I) as [L|] eqn:EL.
  - destruct H as (rows & ob' & E' & HR & HO & _). rewrite E in E'. injection E' as -> -> -> _ _. split.
    + rewrite <- (msc_enc_exact I L a EL). unfold sat, lp; cbn [cols Lin.rows]. rewrite HR. reflexivity.
    + rewrite HO. exact (msc_objective_is_weight I L a EL).
  - rewrite E in H. discriminate.
Qed.
Print Assumptions gen_msc_exact.

(* no model in MiscEnc (a weight is missing) = IndexError in the encoder, and conversely *)
Theorem gen_msc_no_model : forall (I : msc_inst),
  encode_msc I = None <-> fst (fst (fst (fst (fst (Gen_encode_msc.fn (sc_universe I) (sc_subsets I) (msc_weights I)))))) = Exc IndexError.
Proof.
  intro I. pose proof (EncMscSpec.gen_encode_msc_spec I) as H. cbv zeta in H. destruct (encode_msc I) as [L|].
  - destruct H as (rows & ob & E & _). rewrite E. cbn [fst]. split; discriminate.
  - split; [intros _; exact H | reflexivity].
Qed.
Print Assumptions gen_msc_no_model.

