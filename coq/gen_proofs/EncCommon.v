(* EncCommon.v — lemmas shared by the proof scripts about the GENERATED MILP encoders (EncPathsSpec / EncKfdSpec / EncKpcSpec).
   Nothing here mentions a generated definition; compiled with the scripts in the scratch build directory. *)
From Coq Require Import List NArith ZArith QArith Bool Lia Lqa.
Import ListNotations.
From FP Require Import Lin LinEquiv Blocks BlocksProofs PathEnc PathEncProofs PathEncGiven PyRt PyLin.
Local Open Scope Q_scope.

(* a loop whose body emits rows: what the rows emitted so far say, iteration by iteration.  J: what stays true of the state. *)
Lemma emit_loop_sem : forall (S R A : Type) (body : A -> stmt S R) (rows : S -> list row) (J : S -> Prop) (P : (var -> Q) -> A -> Prop) (l : list A),
  (forall x s, In x l -> J s ->
     exists s', (body x s = (CNormal, s') \/ body x s = (CContinue, s')) /\ J s' /\
                forall a, Forall (sat_row a) (rows s') <-> Forall (sat_row a) (rows s) /\ P a x) ->
  forall s, J s ->
    exists s', py_loop body l s = (CNormal, s') /\ J s' /\
               forall a, Forall (sat_row a) (rows s') <-> Forall (sat_row a) (rows s) /\ forall x, In x l -> P a x.
Proof.
  intros S R A body rows J P l. induction l as [|x l IH]; intros Hb s Hs.
  - exists s. split; [reflexivity|]. split; [exact Hs|]. intro a. split; [intro H; split; [exact H | intros x []] | intros [H _]; exact H].
  - destruct (Hb x s (or_introl eq_refl) Hs) as (s1 & E1 & J1 & R1).
    destruct (IH (fun y s0 Hy => Hb y s0 (or_intror Hy)) s1 J1) as (s2 & E2 & J2 & R2).
    exists s2. split; [cbn [py_loop]; destruct E1 as [-> | ->]; exact E2|]. split; [exact J2|].
    intro a. rewrite R2, R1. split.
    + intros [[H0 Hx] Hl]. split; [exact H0|]. intros y [<- | Hy]; [exact Hx | exact (Hl y Hy)].
    + intros [H0 Hall]. split; [split; [exact H0 | apply Hall; left; reflexivity] | intros y Hy; apply Hall; right; exact Hy].
Qed.

(* the same for a loop that emits nothing and cannot fail *)
Lemma quiet_loop : forall (S R A : Type) (body : A -> stmt S R) (J : S -> Prop) (l : list A),
  (forall x s, In x l -> J s -> exists s', (body x s = (CNormal, s') \/ body x s = (CContinue, s')) /\ J s') ->
  forall s, J s -> exists s', py_loop body l s = (CNormal, s') /\ J s'.
Proof.
  intros S R A body J l. induction l as [|x l IH]; intros Hb s Hs; [exists s; split; [reflexivity | exact Hs]|].
  destruct (Hb x s (or_introl eq_refl) Hs) as (s1 & E1 & J1).
  destruct (IH (fun y s0 Hy => Hb y s0 (or_intror Hy)) s1 J1) as (s2 & E2 & J2).
  exists s2. split; [cbn [py_loop]; destruct E1 as [-> | ->]; exact E2 | exact J2].
Qed.

(* ---------------------------------------------------------------- layers, ranges, variables *)
Lemma sumq_map : forall (A B : Type) (g : B -> Q) (f : A -> B) l, sumq g (map f l) = sumq (fun x => g (f x)) l.
Proof. intros A B g f l; induction l as [|x l IH]; cbn [map sumq]; [reflexivity | rewrite IH; reflexivity]. Qed.
Lemma vkey3_Edge : forall u v j, V fEdge (vkey3 (u, v, Z.of_nat j)) = Edge u v (N.of_nat j).
Proof. intros; unfold vkey3, Edge; cbn [fst snd]. rewrite <- nat_N_Z, N2Z.id. reflexivity. Qed.
Lemma vkey3_Pi : forall u v j, V fPi (vkey3 (u, v, Z.of_nat j)) = Pi u v (N.of_nat j).
Proof. intros; unfold vkey3, Pi; cbn [fst snd]. rewrite <- nat_N_Z, N2Z.id. reflexivity. Qed.
Lemma vkey1_W : forall j, V fW (vkey1 (Z.of_nat j)) = W (N.of_nat j).
Proof. intros; unfold vkey1, W. rewrite <- nat_N_Z, N2Z.id. reflexivity. Qed.
Lemma vkey2_R : forall i j, V fR (vkey2 (Z.of_nat i, Z.of_nat j)) = R (N.of_nat i) (N.of_nat j).
Proof. intros; unfold vkey2, R; cbn [fst snd]. rewrite <- !nat_N_Z, !N2Z.id. reflexivity. Qed.
Lemma in_py_range : forall k i, In i (py_range (Z.of_nat k)) <-> exists j, (j < k)%nat /\ i = Z.of_nat j.
Proof.
  intros k i. rewrite py_range_of_nat, in_map_iff. split.
  - intros [j [<- Hj]]. apply in_seq in Hj. exists j. split; [lia | reflexivity].
  - intros [j [Hj ->]]. exists j. split; [reflexivity | apply in_seq; lia].
Qed.
(* sum over range(k) of values of Z-indexed variables = sum over layers k of the N-indexed ones *)
Lemma sumq_range_layers : forall (g : Z -> Q) (h : N -> Q) k, (forall j, g (Z.of_nat j) == h (N.of_nat j)) ->
  sumq g (py_range (Z.of_nat k)) == sumq h (layers k).
Proof.
  intros g h k H. rewrite py_range_of_nat. unfold layers. rewrite !sumq_map. apply sumq_ext. intros j _. apply H.
Qed.
Lemma leval_quicksum_vars : forall (A : Type) a (f : A -> var) l, leval a (py_quicksum (map LVar (map f l))) == sumq (fun x => a (f x)) l.
Proof. intros. rewrite leval_quicksum, map_map, sumq_map. reflexivity. Qed.
Lemma mem_edge_py_mem : forall e l, py_mem PyRt.edge_eqb e l = mem_edge e l.
Proof. intros e l. unfold py_mem, mem_edge. induction l as [|x l IH]; [reflexivity|]. cbn [existsb]. rewrite IH. reflexivity. Qed.
Lemma find_none_guard : forall (A : Type) (g : A -> bool) l, (forall x, In x l -> g x = false) ->
  match find g l with Some x => g x | None => false end = false.
Proof.
  intros A g l H. destruct (find g l) as [x|] eqn:F; [|reflexivity]. apply find_some in F. destruct F as [Hin _]. exact (H x Hin).
Qed.

Lemma find_none_all : forall (A : Type) (g : A -> bool) l, (forall x, In x l -> g x = false) -> find g l = None.
Proof.
  intros A g l H. destruct (find g l) as [x|] eqn:F; [|reflexivity]. apply find_some in F. destruct F as [Hin Hg]. rewrite (H x Hin) in Hg. discriminate.
Qed.
Lemma to_N_of_nat : forall j, Z.to_N (Z.of_nat j) = N.of_nat j.
Proof. intro j. rewrite <- nat_N_Z, N2Z.id. reflexivity. Qed.
(* quantifying over range(k) / over layers k *)
Lemma forall_range_layers : forall (Pn : N -> Prop) k, (forall i, In i (py_range (Z.of_nat k)) -> Pn (Z.to_N i)) <-> (forall n, In n (layers k) -> Pn n).
Proof.
  intros Pn k. split.
  - intros H n Hn. apply in_layers in Hn. destruct Hn as [j [Hj ->]]. specialize (H (Z.of_nat j)). rewrite to_N_of_nat in H. apply H. apply in_py_range. exists j. split; [exact Hj | reflexivity].
  - intros H i Hi. apply in_py_range in Hi. destruct Hi as [j [Hj ->]]. rewrite to_N_of_nat. apply H. apply in_layers. exists j. split; [exact Hj | reflexivity].
Qed.
(* the index list of the edge variables: [(u, v, i) for i in range(k) for (u, v) in G.edges()] *)
Definition eidx (G : stgraph) (k : nat) : list (N * N * Z) :=
  flat_map (fun i => map (fun '(u, v) => (u, v, i)) (PathEnc.g_edges G)) (py_range (Z.of_nat k)).
Lemma in_eidx : forall G k u v i, In (u, v) (PathEnc.g_edges G) -> In i (py_range (Z.of_nat k)) -> In (u, v, i) (eidx G k).
Proof. intros G k u v i He Hi. unfold eidx. apply in_flat_map. exists i. split; [exact Hi|]. apply in_map_iff. exists (u, v). split; [reflexivity | exact He]. Qed.
Lemma eidx_mem : forall G k u v i, In (u, v) (PathEnc.g_edges G) -> In i (py_range (Z.of_nat k)) -> negb (py_mem eqb3 (u, v, i) (eidx G k)) = false.
Proof. intros. apply negb_false_iff. apply (py_mem_In _ eqb3 eqb3_eq). apply in_eidx; assumption. Qed.
Lemma succ_edge : forall G v w, wf_graph G -> In w (succs G v) -> In (v, w) (PathEnc.g_edges G).
Proof.
  intros G v w W H. rewrite (wf_succ G W) in H. apply in_map_iff in H. destruct H as [[a b] [<- Hf]]. apply filter_In in Hf.
  destruct Hf as [Hin Hv]. cbn [fst snd] in *. apply N.eqb_eq in Hv. subst a. exact Hin.
Qed.
Lemma pred_edge : forall G v u, wf_graph G -> In u (preds G v) -> In (u, v) (PathEnc.g_edges G).
Proof.
  intros G v u W H. apply (Permutation.Permutation_in _ (wf_pred G W v)) in H. apply in_map_iff in H. destruct H as [[a b] [<- Hf]]. apply filter_In in Hf.
  destruct Hf as [Hin Hv]. cbn [fst snd] in *. apply N.eqb_eq in Hv. subst b. exact Hin.
Qed.
(* the columns of the edge variables are PathEnc.edge_cols, literally *)
Lemma map_flat_map : forall (A B C : Type) (f : B -> C) (g : A -> list B) l, map f (flat_map g l) = flat_map (fun x => map f (g x)) l.
Proof. intros A B C f g l; induction l as [|x l IH]; cbn [flat_map map]; [reflexivity | rewrite map_app, IH; reflexivity]. Qed.
Lemma flat_map_ext_in : forall (A B : Type) (f g : A -> list B) l, (forall x, In x l -> f x = g x) -> flat_map f l = flat_map g l.
Proof. intros A B f g l; induction l as [|x l IH]; intro H; cbn [flat_map]; [reflexivity|]. rewrite (H x (or_introl eq_refl)), IH; [reflexivity | intros y Hy; apply H; right; exact Hy]. Qed.
Lemma edge_cols_eq : forall G k, py_new_vars fEdge vkey3 (eidx G k) 0 1 true = edge_cols G k.
Proof.
  intros G k. unfold py_new_vars, eidx, edge_cols, layers. rewrite map_flat_map, py_range_of_nat, !flat_map_concat_map, !map_map.
  f_equal. apply map_ext. intro j. rewrite map_map. apply map_ext. intros [u v]. rewrite vkey3_Edge. reflexivity.
Qed.
Lemma lookup_q_py : forall e l d, lookup_q e l d = py_dict_get PyRt.edge_eqb l e d.
Proof.
  intros e l d. unfold py_dict_get. induction l as [|[e' q] l IH]; cbn [lookup_q py_dict_find]; [reflexivity|].
  replace (PyRt.edge_eqb e e') with (PathEnc.edge_eqb e' e).
  - destruct (PathEnc.edge_eqb e' e); [reflexivity | exact IH].
  - unfold PathEnc.edge_eqb, PyRt.edge_eqb, py_pair_eqb. rewrite (N.eqb_sym (fst e')), (N.eqb_sym (snd e')). reflexivity.
Qed.

(* ---------------------------------------------------------------- error models (kLeastAbsErrors / kMinPathError) *)
(* edge_indexes_basic = [(u, v) for (u, v) in G.edges() if (u, v) not in edges_to_ignore] *)
Lemma filter_basic : forall ign (l : list (N * N)),
  map (fun '(c0, c1) => (c0, c1)) (filter (fun '(c0, c1) => negb (py_mem PyRt.edge_eqb (c0, c1) ign)) l) = filter (fun e => negb (mem_edge e ign)) l.
Proof.
  intros ign l. induction l as [|[u v] l IH]; [reflexivity|]. cbn [filter]. rewrite mem_edge_py_mem.
  destruct (mem_edge (u, v) ign); cbn [negb map]; [exact IH | rewrite IH; reflexivity].
Qed.
Lemma filter_basic_id : forall ign (l : list (N * N)),
  map (fun c0 => c0) (filter (fun c0 => negb (py_mem PyRt.edge_eqb c0 ign)) l) = filter (fun e => negb (mem_edge e ign)) l.
Proof. intros ign l. rewrite map_id. apply filter_ext. intro e. rewrite mem_edge_py_mem. reflexivity. Qed.
Lemma vkeyE_Err : forall u v, V fErr (vkeyE (u, v)) = V fErr [u; v].
Proof. reflexivity. Qed.
Lemma py_mem_edge_in : forall (e : N * N) l, In e l -> negb (py_mem PyRt.edge_eqb e l) = false.
Proof. intros e l H. apply negb_false_iff. apply PyRt.py_mem_edge_In. exact H. Qed.
Lemma pidx_mem_ : forall k i, In i (py_range (Z.of_nat k)) -> negb (py_mem Z.eqb i (py_range (Z.of_nat k))) = false.
Proof. intros. apply negb_false_iff. apply (py_mem_In _ Z.eqb Z.eqb_eq). assumption. Qed.
Lemma range_nonempty : forall k, (1 <= k)%nat -> py_list_is_empty (py_range (Z.of_nat k)) = false.
Proof. intros k H. rewrite py_range_of_nat. destruct k; [lia | reflexivity]. Qed.

(* ---------------------------------------------------------------- given weights (solution_weights_superset) *)
Lemma sumq_zipn : forall (g : N -> Q -> Q) (ws : list Q) s,
  sumq (fun iw => g (fst iw) (snd iw)) (zipn s ws) == sumq (fun j => g (N.of_nat (s + j)) (nth j ws 0)) (seq 0 (length ws)).
Proof.
  intros g ws; induction ws as [|w ws IH]; intro s; cbn [zipn sumq length seq fst snd nth]; [reflexivity|].
  rewrite IH, Nat.add_0_r, <- seq_shift, sumq_map. apply Qplus_comp; [reflexivity|]. apply sumq_ext. intros j _. replace (S s + j)%nat with (s + S j)%nat by lia. reflexivity.
Qed.
Lemma sumq_flat_map : forall (A B : Type) (g : B -> Q) (f : A -> list B) l, sumq g (flat_map f l) == sumq (fun x => sumq g (f x)) l.
Proof. intros A B g f l; induction l as [|x l IH]; cbn [flat_map sumq]; [reflexivity | rewrite sumq_app, IH; reflexivity]. Qed.
Lemma list_get_nat : forall (l : list Q) j, py_list_get 0 l (Z.of_nat j) = nth j l 0.
Proof. intros; unfold py_list_get. destruct (Z.of_nat j <? 0)%Z eqn:E; [apply Z.ltb_lt in E; lia|]. rewrite Nat2Z.id. reflexivity. Qed.
(* sum over all source edges and layers, whichever of the two is the outer loop *)
Lemma src_out_eval : forall G k a,
  eval a (src_out_terms G k) == sumq (fun i => sumq (fun v => a (V fEdge (vkey3 (PathEnc.g_src G, v, i)))) (succs G (PathEnc.g_src G))) (py_range (Z.of_nat k)).
Proof.
  intros G k a. unfold src_out_terms. rewrite eval_flat_map.
  rewrite (sumq_ext _ (fun v => sumq (fun i => a (V fEdge (vkey3 (PathEnc.g_src G, v, i)))) (py_range (Z.of_nat k)))).
  - apply sumq_swap.
  - intros v _. rewrite (eval_map_const a (fun i => Edge (PathEnc.g_src G) v i) 1).
    rewrite (sumq_range_layers (fun i => a (V fEdge (vkey3 (PathEnc.g_src G, v, i)))) (fun i => a (Edge (PathEnc.g_src G) v i)) k); [ring | intro j; rewrite vkey3_Edge; reflexivity].
Qed.

Lemma vkey1_Slack : forall j, V fSlack (vkey1 (Z.of_nat j)) = V fSlack [N.of_nat j].
Proof. intros; unfold vkey1. rewrite <- nat_N_Z, N2Z.id. reflexivity. Qed.
Lemma vkey3_Gamma : forall u v j, V fGamma (vkey3 (u, v, Z.of_nat j)) = V fGamma [u; v; N.of_nat j].
Proof. intros; unfold vkey3; cbn [fst snd]. rewrite <- nat_N_Z, N2Z.id. reflexivity. Qed.
Lemma index_ok_range_ : forall (A : Type) (l : list A) i, In i (py_range (Z.of_nat (length l))) -> negb (py_index_ok l i) = false.
Proof.
  intros A l i Hi. apply in_py_range in Hi. destruct Hi as [j [Hj ->]]. apply negb_false_iff.
  unfold py_index_ok, py_len. apply andb_true_iff. split; [apply Z.leb_le | apply Z.ltb_lt]; lia.
Qed.
Lemma map_pair_id : forall (A B : Type) (l : list (A * B)), map (fun '(c0, c1) => (c0, c1)) l = l.
Proof. intros A B l. rewrite <- (map_id l) at 2. apply map_ext. intros [a b]. reflexivity. Qed.

(* ---------------------------------------------------------------- examples: the same LP, whatever the order / orientation of the rows *)
(* decided by the verified checker LinEquiv.milp_equiv_b (milp_equiv_sound: same satisfying assignments) *)
Definition same_lp (cs : list col) (rs : list row) (cs' : list col) (rs' : list row) : bool :=
  milp_equiv_b {| cols := cs; rows := rs; obj := []; maximize := false |} {| cols := cs'; rows := rs'; obj := []; maximize := false |}.
Lemma same_lp_sound : forall cs rs cs' rs', same_lp cs rs cs' rs' = true ->
  forall a, (Forall (sat_col a) cs /\ Forall (sat_row a) rs) <-> (Forall (sat_col a) cs' /\ Forall (sat_row a) rs').
Proof. intros cs rs cs' rs' H a. exact (proj1 (milp_equiv_sound _ _ H) a). Qed.
