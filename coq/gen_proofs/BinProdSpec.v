(* BinProdSpec.v — proved on every run AGAINST THE GENERATED MODEL Gen_binprod.v, which harness/translate.py
   regenerates from flowpaths/utils/solverwrapper.py :: SolverWrapper.add_binary_continuous_product_constraint.
   The generated function EMITS rows; here they are shown to admit exactly the assignments the hand-written
   Blocks.mcc_rows admit, so that C12's exactness theorem (BlocksProofs.mcc_rows_exact) holds of the rows the
   code emits NOW.  Not part of coq/theories. *)
From Coq Require Import List NArith ZArith QArith Bool Lia Lqa.
Import ListNotations.
From FP Require Import Lin LinEquiv Blocks BlocksProofs PyRt PyLin.
From FPGen Require Import Gen_binprod.
Local Open Scope Q_scope.

(* what the generated function hands to the solver *)
Definition binprod_rows (b c p : var) (lb ub : Q) : list row := snd (fn b c p lb ub).

(* it creates no column, raises nothing, and emits exactly these rows *)
Theorem gen_binprod_shape : forall b c p lb ub, fn b c p lb ub = (RetNone, [], binprod_rows b c p lb ub).
Proof. reflexivity. Qed.
Print Assumptions gen_binprod_shape.

Ltac run_emitter :=
  cbv [binprod_rows fn body init_st py_seq py_assign py_skip py_if py_guard emit_out set_o_rows set_o_cols o_rows o_cols py_outcome fst snd app].

(* the emitted rows say exactly the four McCormick inequalities *)
Theorem gen_binprod_rows_mcc : forall (a : var -> Q) b c p lb ub,
  Forall (sat_row a) (binprod_rows b c p lb ub) <-> mcc (a b) (a c) (a p) lb ub.
Proof.
  intros a b c p lb ub. run_emitter.
  repeat rewrite Forall_cons_iff. repeat rewrite sat_row_mk_row.
  unfold lcon_holds, mcc; cbn [k_lhs k_sns k_rhs leval]. change (inject_Z 1) with 1.
  pose proof (Forall_nil (sat_row a)) as Hnil. tauto.
Qed.
Print Assumptions gen_binprod_rows_mcc.

(* hence they admit the same assignments as the hand-written model of C12 ... *)
Theorem gen_binprod_rows_equiv : forall (a : var -> Q) b c p lb ub,
  Forall (sat_row a) (binprod_rows b c p lb ub) <-> Forall (sat_row a) (mcc_rows b c p lb ub).
Proof. intros. rewrite gen_binprod_rows_mcc, sat_mcc_rows. reflexivity. Qed.
Print Assumptions gen_binprod_rows_equiv.

(* ... and C12's theorem transfers: the rows the code emits admit exactly product = binary * continuous *)
Theorem gen_binprod_exact : forall (a : var -> Q) (b c p : var) (lb ub : Q),
  bin (a b) -> lb <= a c <= ub ->
  (Forall (sat_row a) (binprod_rows b c p lb ub) <-> a p == a b * a c).
Proof. intros a b c p lb ub Hb Hc. rewrite gen_binprod_rows_mcc. apply mcc_exact; assumption. Qed.
Print Assumptions gen_binprod_exact.

(* non-vacuity: the four rows for b = V 1 [], c = V 2 [], p = V 3 [], bounds 1 .. 5, printed in canonical form *)
Example gen_binprod_example :
  LinEquiv.milp_equiv_b {| cols := []; rows := binprod_rows (V 1 []) (V 2 []) (V 3 []) 1 5; obj := []; maximize := false |}
                         {| cols := []; rows := mcc_rows (V 1 []) (V 2 []) (V 3 []) 1 5; obj := []; maximize := false |} = true.
Proof. vm_compute. reflexivity. Qed.
