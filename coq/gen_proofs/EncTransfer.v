(* EncTransfer.v — the LP that the GENERATED encoders hand to the solver (what Gen_encode_paths.fn, Gen_encode_kfd.fn and
   Gen_encode_kpc.fn emit, concatenated as the constructors of kFlowDecomp / kPathCover call them) admits exactly the assignments of the
   hand-written PathEnc.encode_kfd / encode_kpc; hence the headline theorems of the DAG development hold of the encoders as they are NOW:
   gen_kfd_sound (C01 C02), gen_kfd_feasible_iff_cons (C03 C05 C10), gen_kpc_feasible_iff (C09).  Compiled after EncPathsSpec /
   EncKfdSpec / EncKpcSpec in the scratch build directory; not part of coq/theories. *)
From Coq Require Import List NArith ZArith QArith Bool Lia Lqa Permutation.
Import ListNotations.
From FP Require Import Lin Blocks BlocksProofs PathEnc PathEncProofs PathEncComplete PathCoverComplete DagDecode EulerProofs1 PyRt PyLin.
From FPGen Require EncCommon Gen_encode_paths Gen_encode_kfd Gen_encode_kpc EncPathsSpec EncKfdSpec EncKpcSpec.
Local Open Scope Q_scope.

(* the inputs of the generated path encoder that describe a given instance of the hand-written model *)
Definition cl_of (B : path_inst) : option Q := match p_len B with None => None | Some _ => Some (p_cov B) end.
Definition lens_of (B : path_inst) : list (N * N * Q) := match p_len B with None => [] | Some l => l end.
Lemma inst_of : forall B, EncPathsSpec.inst (p_graph B) (p_k B) (p_allow_empty B) (p_cons B) (p_cov B) (cl_of B) (lens_of B) = B.
Proof. intros [G k ae cons cov [l|]]; reflexivity. Qed.

Definition cons_on_edges (B : path_inst) : Prop := EncPathsSpec.cons_on_edges (p_graph B) (p_cons B).
Definition lp (cs : list col) (rs : list row) : milp := {| cols := cs; rows := rs; obj := []; maximize := false |}.

(* what _encode_paths emits for B *)
Lemma gen_paths_out : forall B la rev, wf_graph (p_graph B) -> cons_on_edges B ->
  exists rowsP pidx six svars,
    Gen_encode_paths.fn (p_graph B) (Z.of_nat (p_k B)) (p_allow_empty B) (p_cons B) (p_cov B) (cl_of B) la false (lens_of B) rev
      = (RetNone, base_cols B, rowsP, EncCommon.eidx (p_graph B) (p_k B), pidx, six, EncCommon.eidx (p_graph B) (p_k B), svars, [], []) /\
    forall a, Forall (sat_row a) rowsP <-> Forall (sat_row a) (base_rows B).
Proof.
  intros B la rev W Hc. pose proof (EncPathsSpec.gen_encode_paths_spec (p_graph B) (p_k B) (p_allow_empty B) (p_cons B) (p_cov B) (cl_of B) la (lens_of B) rev W Hc) as H.
  cbv zeta in H. rewrite inst_of in H. exact H.
Qed.

(* ---------------------------------------------------------------- kFlowDecomp: _encode_paths then _encode_flow_decomposition *)
Theorem gen_kfd_lp : forall (I : kfd_inst) la rev,
  let B := f_base I in let G := p_graph B in let k := p_k B in
  wf_graph G -> cons_on_edges B -> EncKfdSpec.flows_present G (f_ignore I) (f_flow I) ->
  exists colsP rowsP colsF rowsF t1 t2 t3 t4 t5,
    Gen_encode_paths.fn G (Z.of_nat k) (p_allow_empty B) (p_cons B) (p_cov B) (cl_of B) la false (lens_of B) rev
      = (RetNone, colsP, rowsP, EncCommon.eidx G k, t1, t2, EncCommon.eidx G k, t3, t4, t5) /\
    Gen_encode_kfd.fn G (Z.of_nat k) (EncCommon.eidx G k) (EncKfdSpec.pidx k) (EncCommon.eidx G k) (f_wmax I) (f_ignore I) [] [] (f_flow I) false (f_int I)
      = (RetNone, colsF, rowsF, EncCommon.eidx G k, EncKfdSpec.pidx k) /\
    forall a, sat a (lp (colsP ++ colsF) (rowsP ++ rowsF)) <-> sat a (encode_kfd I).
Proof.
  intros I la rev B G k W Hc Hf.
  destruct (gen_paths_out B la rev W Hc) as (rowsP & t1 & t2 & t3 & EP & HP).
  destruct (EncKfdSpec.gen_encode_kfd_spec B (f_flow I) (f_ignore I) (f_wmax I) (f_int I) Hf) as (rowsF & EF & HF).
  assert (EI : EncKfdSpec.kinst B (f_flow I) (f_ignore I) (f_wmax I) (f_int I) = I) by (destruct I; reflexivity). rewrite EI in EF, HF.
  exists (base_cols B), rowsP, (kfd_cols I), rowsF, t1, t2, t3, [], []. split; [exact EP|]. split; [exact EF|].
  intro a. unfold sat, lp, encode_kfd; cbn [cols rows]. rewrite !Forall_app, HP, HF. reflexivity.
Qed.
Print Assumptions gen_kfd_lp.

Theorem gen_kfd_sound : forall (I : kfd_inst) la rev (a : var -> Q) (rank : node -> nat) (Rm : nat),
  let B := f_base I in let G := p_graph B in let k := p_k B in
  let E := PathEnc.g_edges G in let s := PathEnc.g_src G in let t := PathEnc.g_snk G in
  wf_graph G -> cons_on_edges B -> EncKfdSpec.flows_present G (f_ignore I) (f_flow I) -> p_allow_empty B = false ->
  (forall u v, In (u, v) E -> (rank u < rank v)%nat) -> (forall v, (rank v <= Rm)%nat) ->
  forall colsP rowsP colsF rowsF t1 t2 t3 t4 t5 u1 u2,
    Gen_encode_paths.fn G (Z.of_nat k) (p_allow_empty B) (p_cons B) (p_cov B) (cl_of B) la false (lens_of B) rev
      = (RetNone, colsP, rowsP, t1, t2, t3, t4, t5, u1, u2) ->
    Gen_encode_kfd.fn G (Z.of_nat k) (EncCommon.eidx G k) (EncKfdSpec.pidx k) (EncCommon.eidx G k) (f_wmax I) (f_ignore I) [] [] (f_flow I) false (f_int I)
      = (RetNone, colsF, rowsF, EncCommon.eidx G k, EncKfdSpec.pidx k) ->
    sat a (lp (colsP ++ colsF) (rowsP ++ rowsF)) ->
    (forall i, In i (layers k) ->
       exists p, decode E (xval a i) t (S Rm) s = Some p /\ last p s = t /\
                 Permutation (Sup E (xval a i)) (EulerProofs1.pairs (s :: p)) /\
                 (forall e, In e E -> EulerProofs4.count_e e (EulerProofs1.pairs (s :: p)) = Z.to_nat (xval a i e))) /\
    (forall i, In i (layers k) -> (0 <= a (W i) <= f_wmax I) /\ (f_int I = true -> is_int (a (W i)))) /\
    (forall e, In e E -> mem_edge e (f_ignore I) = false ->
       (sumq (fun i => a (W i) * inject_Z (xval a i e)) (layers k) == lookup_q e (f_flow I) 0)).
Proof.
  intros I la rev a rank Rm B G k E s t W Hc Hf Hae Hrank HR colsP rowsP colsF rowsF t1 t2 t3 t4 t5 u1 u2 EP EF Hsat.
  destruct (gen_kfd_lp I la rev W Hc Hf) as (cP & rP & cF & rF & v1 & v2 & v3 & v4 & v5 & EP' & EF' & Heq).
  fold B G k in EP', EF'. rewrite EP in EP'. rewrite EF in EF'. injection EP' as -> -> _ _ _ _ _ _ _. injection EF' as -> ->.
  apply (kfd_sound I a rank Rm W Hae Hrank HR). apply Heq. exact Hsat.
Qed.
Print Assumptions gen_kfd_sound.

Theorem gen_kfd_feasible_iff_cons : forall (I : kfd_inst) la rev (rank : node -> nat) (Rm : nat),
  let B := f_base I in let G := p_graph B in let k := p_k B in
  wf_graph G -> p_allow_empty B = false ->
  (forall u v, In (u, v) (PathEnc.g_edges G) -> (rank u < rank v)%nat) -> (forall v, (rank v <= Rm)%nat) ->
  (forall c e, In c (p_cons B) -> In e c -> In e (PathEnc.g_edges G) /\ 0 <= elen B e) ->
  EncKfdSpec.flows_present G (f_ignore I) (f_flow I) ->
  exists colsP rowsP colsF rowsF t1 t2 t3 t4 t5,
    Gen_encode_paths.fn G (Z.of_nat k) (p_allow_empty B) (p_cons B) (p_cov B) (cl_of B) la false (lens_of B) rev
      = (RetNone, colsP, rowsP, EncCommon.eidx G k, t1, t2, EncCommon.eidx G k, t3, t4, t5) /\
    Gen_encode_kfd.fn G (Z.of_nat k) (EncCommon.eidx G k) (EncKfdSpec.pidx k) (EncCommon.eidx G k) (f_wmax I) (f_ignore I) [] [] (f_flow I) false (f_int I)
      = (RetNone, colsF, rowsF, EncCommon.eidx G k, EncKfdSpec.pidx k) /\
    ((exists a, sat a (lp (colsP ++ colsF) (rowsP ++ rowsF))) <-> (exists P w, decomposition I P w /\ constraints_covered B P)).
Proof.
  intros I la rev rank Rm B G k W Hae Hrank HR Hcons Hf.
  assert (Hc : cons_on_edges B) by (intros c e H1 H2; exact (proj1 (Hcons c e H1 H2))).
  destruct (gen_kfd_lp I la rev W Hc Hf) as (cP & rP & cF & rF & v1 & v2 & v3 & v4 & v5 & EP & EF & Heq).
  exists cP, rP, cF, rF, v1, v2, v3, v4, v5. split; [exact EP|]. split; [exact EF|].
  etransitivity; [| exact (kfd_feasible_iff_cons I rank Rm W Hae Hrank HR Hcons)].
  split; intros [a Ha]; exists a; apply Heq; exact Ha.
Qed.
Print Assumptions gen_kfd_feasible_iff_cons.

(* ---------------------------------------------------------------- kPathCover: _encode_paths then _encode_path_cover *)
Theorem gen_kpc_feasible_iff : forall (B : path_inst) (ignore : list (N * N)) la rev (rank : node -> nat) (Rm : nat),
  let G := p_graph B in let k := p_k B in
  wf_graph G -> p_allow_empty B = false ->
  (forall u v, In (u, v) (PathEnc.g_edges G) -> (rank u < rank v)%nat) -> (forall v, (rank v <= Rm)%nat) ->
  (forall c e, In c (p_cons B) -> In e c -> In e (PathEnc.g_edges G) /\ 0 <= elen B e) ->
  exists colsP rowsP rowsC t1 t2 t3 t4 t5,
    Gen_encode_paths.fn G (Z.of_nat k) (p_allow_empty B) (p_cons B) (p_cov B) (cl_of B) la false (lens_of B) rev
      = (RetNone, colsP, rowsP, EncCommon.eidx G k, t1, t2, EncCommon.eidx G k, t3, t4, t5) /\
    Gen_encode_kpc.fn G (Z.of_nat k) (p_cons B) (p_cov B) ignore (EncCommon.eidx G k) = (RetNone, [], rowsC) /\
    ((exists a, sat a (lp colsP (rowsP ++ rowsC))) <-> (exists P, path_cover B ignore P /\ constraints_covered B P)).
Proof.
  intros B ignore la rev rank Rm G k W Hae Hrank HR Hcons.
  assert (Hc : cons_on_edges B) by (intros c e H1 H2; exact (proj1 (Hcons c e H1 H2))).
  destruct (gen_paths_out B la rev W Hc) as (rowsP & t1 & t2 & t3 & EP & HP).
  assert (Hk : EncKpcSpec.edge_keys_present G k (EncCommon.eidx G k)) by (intros [u v] i He Hi; cbn [fst snd]; apply EncCommon.in_eidx; assumption).
  destruct (EncKpcSpec.gen_kpc_rows_equiv B ignore (EncCommon.eidx G k) Hk) as (rowsC & EC & HC).
  exists (base_cols B), rowsP, rowsC, t1, t2, t3, [], []. split; [exact EP|]. split; [exact EC|].
  etransitivity; [| exact (kpc_feasible_iff B ignore rank Rm W Hae Hrank HR Hcons)].
  split; intros [a Ha]; exists a; revert Ha; unfold sat, lp, encode_kpc; cbn [cols rows]; rewrite !Forall_app, HP, HC; tauto.
Qed.
Print Assumptions gen_kpc_feasible_iff.

(* ---------------------------------------------------------------- kFlowDecomp with given weights: _encode_paths then _encode_flow_decomposition_with_given_weights *)
From FPGen Require Gen_encode_kfdw EncKfdwSpec.
Theorem gen_kfd_given_lp : forall (I : kfd_inst) (ws : list Q) (korig : nat) la rev,
  let B := f_base I in let G := p_graph B in let k := p_k B in
  wf_graph G -> cons_on_edges B -> length ws = k -> EncKfdwSpec.flows_present G (f_ignore I) (f_flow I) ->
  exists colsP rowsP rowsW ob t1 t2 t3 t4 t5,
    Gen_encode_paths.fn G (Z.of_nat k) (p_allow_empty B) (p_cons B) (p_cov B) (cl_of B) la false (lens_of B) rev
      = (RetNone, colsP, rowsP, EncCommon.eidx G k, t1, t2, EncCommon.eidx G k, t3, t4, t5) /\
    Gen_encode_kfdw.fn G (Z.of_nat k) (EncCommon.eidx G k) (f_ignore I) ws (Z.of_nat korig) (f_flow I) false false false false false
      = (RetNone, [], rowsW, Some (ob, false)) /\
    (forall a, sat a (lp colsP (rowsP ++ rowsW)) <-> sat a (encode_kfd_given I ws korig)) /\
    (forall a, leval a ob == objective a (encode_kfd_given I ws korig)) /\ maximize (encode_kfd_given I ws korig) = false.
Proof.
  intros I ws korig la rev B G k W Hc Hlen Hf.
  destruct (gen_paths_out B la rev W Hc) as (rowsP & t1 & t2 & t3 & EP & HP).
  destruct (EncKfdwSpec.gen_encode_kfdw_spec B (f_flow I) (f_ignore I) ws korig W Hlen Hf) as (rowsW & ob & EW & HW & HO).
  exists (base_cols B), rowsP, rowsW, ob, t1, t2, t3, [], []. split; [exact EP|]. split; [exact EW|]. split; [|split; [|reflexivity]].
  - intro a. unfold sat, lp, encode_kfd_given; cbn [cols rows]. rewrite !Forall_app, HP, HW.
    assert (Ek : forall a0, Forall (sat_row a0) (kfdw_rows {| f_base := B; f_flow := f_flow I; f_ignore := f_ignore I; f_wmax := 0; f_int := false |} ws korig) <->
                            Forall (sat_row a0) (kfdw_rows I ws korig)) by (intro a0; unfold kfdw_rows; cbn [f_base f_flow f_ignore]; reflexivity).
    rewrite Ek. reflexivity.
  - intro a. unfold objective, encode_kfd_given; cbn [obj]. apply HO.
Qed.
Print Assumptions gen_kfd_given_lp.
