(* SearchMpccSpec.v — MinPathCoverCycles.solve, regenerated (Gen_search_mpcc.v), IS Search.mpcc_solve: for every list of solver outcomes, lower bound and
   number of edges.  Hence the C13 theorems about mpcc_solve hold of the regenerated loop. *)
From Coq Require Import List Bool Arith ZArith Lia.
Import ListNotations.
From FP Require Import PyRt PyLin Search SearchProofs1 SearchProofs2.
From FPGen Require Import SearchSpec Gen_search_mpcc.

Definition run (sts : list raw) (lb ne : nat) (last0 : Z) : gen_result := fn (codes sts) 0 last0 (Z.of_nat lb) (Z.of_nat ne).

Theorem gen_mpcc_spec : forall (sts : list raw) (lb ne : nat) (last0 : Z),
  matches (mpcc_solve false lb ne sts) last0 sts (run sts lb ne last0).
Proof.
  intros sts lb ne last0. unfold matches, run, g_res, g_n, g_last, g_solved, g_chosen, fn, body, init_st.
  seq_assigns. loop_then_false.
  match goal with |- context [then_false (py_loop ?B _ _)] =>
    pose proof (search_loop_sem st at_o_n at_o_last at_chosen at_solved (codes sts) B) as L end.
  cbv beta. gen_simpl. replace (Z.add (Z.of_nat ne) 1) with (Z.of_nat (S ne)) by lia. rewrite range2_krange.
  match type of L with ?H -> _ => assert (HB : H) by (kbody_tac ltac:(gen_simpl)) end.
  specialize (L HB sts eq_refl (krange lb (S ne)) 0).
  match goal with |- context [py_loop ?B ?l ?s0] => specialize (L s0 eq_refl) end.
  cbn [skipn] in L. unfold mpcc_solve, upper. destruct (kloop never never (krange lb (S ne)) sts 0) as [r m].
  match goal with |- context [then_false ?X] => destruct (then_false X) as [c s'] end.
  cbn in L. gen_simpl in L. destruct L as (L1 & L2 & L3 & L4). cbn [so_res used fst snd py_outcome].
  split; [exact L1|]. split; [intros ->; apply L2; reflexivity|]. split; [intros H; apply L3; lia|].
  destruct r; try contradiction; destruct L4 as (-> & -> & ->); repeat split; reflexivity.
Qed.
Print Assumptions gen_mpcc_spec.

(* C13_mpcc_search_sound: solve() returned True => the chosen k is in the range, every smaller k of the range was PROVEN infeasible and k itself optimal *)
Theorem gen_mpcc_search_sound : forall sts lb ne last0, g_res (run sts lb ne last0) = Ret true ->
  exists k, g_chosen (run sts lb ne last0) = Z.of_nat k /\ g_solved (run sts lb ne last0) = true /\ lb <= k < S ne /\
    map status_of (firstn (Z.to_nat (g_n (run sts lb ne last0))) sts) = repeat Infeasible (k - lb) ++ [Optimal].
Proof.
  intros sts lb ne last0 H. destruct (matches_true _ _ _ _ (gen_mpcc_spec sts lb ne last0) H) as (k & E & C & F & N).
  exists k. split; [exact C|]. split; [exact F|]. rewrite N. exact (mpcc_search_sound false lb ne sts k E).
Qed.
Print Assumptions gen_mpcc_search_sound.

(* C13_mpcc_search_inconclusive: an inconclusive status among the invocations made => solve() returns False and the flag stays off *)
Theorem gen_mpcc_search_inconclusive : forall sts lb ne last0 p, inconclusive_at sts p -> (Z.of_nat p < g_n (run sts lb ne last0))%Z ->
  g_res (run sts lb ne last0) = Ret false /\ g_solved (run sts lb ne last0) = false.
Proof.
  intros sts lb ne last0 p Hi Hp. pose proof (gen_mpcc_spec sts lb ne last0) as M. apply (matches_notsolved _ _ _ _ M).
  apply (mpcc_search_inconclusive false lb ne sts p Hi). destruct M as (M1 & _). rewrite M1 in Hp. lia.
Qed.
Print Assumptions gen_mpcc_search_inconclusive.

Theorem gen_mpcc_flag_and_status : forall sts lb ne last0,
  (g_res (run sts lb ne last0) = Ret true <-> g_solved (run sts lb ne last0) = true) /\
  ((0 < g_n (run sts lb ne last0))%Z -> exists x, nth_error sts (Z.to_nat (g_n (run sts lb ne last0)) - 1) = Some x /\ g_last (run sts lb ne last0) = code (status_of x)).
Proof.
  intros sts lb ne last0. pose proof (gen_mpcc_spec sts lb ne last0) as M. split; [exact (matches_flag _ _ _ _ M)|].
  intros H. pose proof M as (M1 & _). rewrite M1, Nat2Z.id in *. apply (matches_last _ _ _ _ M). lia.
Qed.
Print Assumptions gen_mpcc_flag_and_status.

(* non-vacuity: infeasible, infeasible, optimal from k = 2 in a graph with 5 edges; a time limit at the second invocation; statuses running out *)
Definition R (s : status) : raw := mkraw s false.
Example gen_mpcc_example : run [R Infeasible; R Infeasible; R Optimal; R Other] 2 5 7 = (Ret true, 3, 0, true, 4)%Z.
Proof. vm_compute. reflexivity. Qed.
Example gen_mpcc_example_timelimit : run [R Infeasible; mkraw Optimal true; R Optimal] 2 5 7 = (Ret false, 2, 2, false, 0)%Z.
Proof. vm_compute. reflexivity. Qed.
Example gen_mpcc_example_exhausted : run [R Infeasible; R Infeasible; R Infeasible; R Infeasible; R Optimal] 2 5 7 = (Ret false, 4, 1, false, 0)%Z.
Proof. vm_compute. reflexivity. Qed.
Example gen_mpcc_example_starved : g_res (run [R Infeasible] 2 5 7) = Exc IndexError.
Proof. vm_compute. reflexivity. Qed.
