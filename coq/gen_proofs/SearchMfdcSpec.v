(* SearchMfdcSpec.v — the MAIN LOOP of MinFlowDecompCycles.solve, regenerated (Gen_search_mfdc_main.v), IS Search.kloop with the presolved test
   "a solved guessed-weights model is kept and its solution has exactly k walks" (Search.given_match) and the elapsed-time exit: for every list of
   solver outcomes.  The auxiliary phases (guessed-weights model, lower bound with its nested MinGenSet search) are NOT regenerated: the number of
   solver invocations they made, the lower bound and the kept model are inputs (in Search.fd_solve: lb_phase and the guessed-weights run). *)
From Coq Require Import List Bool Arith ZArith Lia.
Import ListNotations.
From FP Require Import PyRt PyLin Search SearchProofs1 SearchProofs2.
From FPGen Require Import SearchSpec Gen_search_mfdc_main.

(* roles of the generated state fields: x0 fd_model (its k), x1 fd_model is not None, x2 fd_model is the kept guessed-weights model *)

Lemma nth_error_skipn' {A} : forall n (l : list A) i, nth_error (skipn n l) i = nth_error l (n + i).
Proof. induction n as [|n IH]; intros l i; [reflexivity|]. destruct l as [|a l]; [destruct i; reflexivity|]. cbn. apply IH. Qed.

Section Mfdc.
  Variables (ov : list bool) (sts : list raw) (gw_set : bool) (gw_paths : nat).
  Hypothesis Hov : length sts < length ov.
  Let given : option nat := if gw_set then Some gw_paths else None.
  Let pre := given_match given.

  Lemma get_nth {A} (d : A) (l : list A) (k : nat) : py_list_get d l (Z.of_nat k) = nth k l d.
  Proof. unfold py_list_get. replace (Z.of_nat k <? 0)%Z with false by (symmetry; apply Z.ltb_ge; lia). rewrite Nat2Z.id. reflexivity. Qed.
  Lemma ok_lt {A} (l : list A) (k : nat) : k < length l -> py_index_ok l (Z.of_nat k) = true.
  Proof. intros H. unfold py_index_ok, py_len. apply andb_true_intro. split; [apply Z.leb_le|apply Z.ltb_lt]; lia. Qed.

  Definition agrees_fd (r : Search.result * nat) (o : ctl bool * st) (s0 : st) : Prop :=
    let '(res, m) := r in let '(c, s') := o in
    at_o_n s' = Z.of_nat m /\
    match res with
    | Solved k => c = CReturn true /\ at_solved s' = true /\ at_chosen s' = Z.of_nat k
    | NotSolved => (c = CNormal \/ c = CReturn false) /\ at_solved s' = at_solved s0 /\ at_chosen s' = at_chosen s0
    | Starved => c = CRaise IndexError /\ at_solved s' = at_solved s0 /\ at_chosen s' = at_chosen s0
    | _ => False
    end.
  Lemma agrees_mono r o s1 s2 : agrees_fd r o s1 -> at_solved s1 = at_solved s2 -> at_chosen s1 = at_chosen s2 -> agrees_fd r o s2.
  Proof. destruct r as [res m], o as [c s']. cbn. intros (A & B) E F. rewrite <- E, <- F. split; assumption. Qed.

  Ltac unfold_stmt := cbv beta iota delta [py_seq py_if py_guard py_assign py_skip py_raise py_return].

  Definition body_ok (r : Search.result * nat) (o : ctl bool * st) : Prop :=
    let '(res, m) := r in let '(c, s') := o in
    at_o_n s' = Z.of_nat m /\
    match res with
    | Solved k => c = CReturn true /\ at_solved s' = true /\ at_chosen s' = Z.of_nat k
    | NotSolved => c = CReturn false /\ at_solved s' = false /\ at_chosen s' = 0%Z
    | Starved => c = CRaise IndexError /\ at_solved s' = false /\ at_chosen s' = 0%Z
    | _ => False
    end.

  Lemma body_sem : forall (guessed : bool) (aux_gw aux_lb lb ne : nat) (last0 : Z),
    let n1 := (if guessed then aux_gw else 0) + aux_lb in
    n1 <= length sts ->
    body_ok (kloop pre (of_list ov) (krange lb (S ne)) (skipn n1 sts) n1)
            (body (codes sts) 0 last0 ov guessed (Z.of_nat aux_gw) (Z.of_nat aux_lb) (Z.of_nat lb) (Z.of_nat ne) gw_set (Z.of_nat gw_paths)
                  (init_st (codes sts) 0 last0 ov guessed (Z.of_nat aux_gw) (Z.of_nat aux_lb) (Z.of_nat lb) (Z.of_nat ne) gw_set (Z.of_nat gw_paths))).
  Proof.
    intros guessed aux_gw aux_lb lb ne last0 n1 Hn1. unfold body_ok, body, init_st.
    match goal with |- context [py_seq (py_for ?it ?B0) ?ret] => set (B := B0); set (LOOP := py_seq (py_for it B) ret) end.
    assert (L : forall ks0 n s, n <= length sts -> at_o_n s = Z.of_nat n ->
                  agrees_fd (kloop pre (of_list ov) ks0 (skipn n sts) n) (py_loop B (map Z.of_nat ks0) s) s).
    { induction ks0 as [|k ks0 IH]; intros n s Hn On.
      - cbn. repeat split; auto.
      - assert (Ov0 : py_index_ok ov (Z.of_nat n) = true) by (apply ok_lt; lia).
        cbn [map py_loop kloop]. unfold B at 1. unfold_stmt. unfold pre, given_match, given, of_list. gen_simpl.
        replace (Z.of_nat gw_paths =? Z.of_nat k)%Z with (gw_paths =? k) by (destruct (Nat.eqb_spec gw_paths k); [symmetry; apply Z.eqb_eq; lia|symmetry; apply Z.eqb_neq; lia]).
        assert (PRE : forall b : bool, b = (match (if gw_set then Some gw_paths else None) with Some g => g =? k | None => false end) -> True) by (intros; exact I). clear PRE.
        destruct (skipn n sts) as [|r rest] eqn:Esk.
        + pose proof (skipn_nil_inv _ _ Esk) as Hnone.
          assert (Ic : py_index_ok (codes sts) (Z.of_nat n) = false).
          { rewrite index_ok_nth. unfold codes. rewrite nth_error_map, Hnone. reflexivity. }
          destruct gw_set; [destruct (gw_paths =? k)|];
          repeat (gen_simpl; rewrite ?On, ?get_nth, ?Ic, ?Ov0; cbn [negb orb];
                  match goal with |- context [if ?c then _ else _] => destruct c eqn:? end).
          all: try congruence.
          all: do 2 (gen_simpl; rewrite ?On, ?get_nth, ?Ic, ?Ov0; cbn [negb orb]).
          all: try solve [cbn; gen_simpl; rewrite ?On; repeat split; auto].
        + destruct (skipn_cons_inv _ _ _ _ Esk) as [Hn' Erest]. rewrite <- Erest.
          assert (Hlt : n < length sts) by (apply nth_error_Some; congruence).
          assert (Hc : nth_error (codes sts) n = Some (code (status_of r))) by (unfold codes; rewrite nth_error_map, Hn'; reflexivity).
          assert (Ic : py_index_ok (codes sts) (Z.of_nat n) = true) by (rewrite index_ok_nth, Hc; reflexivity).
          assert (Hnth : nth n (codes sts) 0%Z = code (status_of r)) by (apply nth_error_nth; exact Hc).
          assert (Ov1 : py_index_ok ov (Z.of_nat (S n)) = true) by (apply ok_lt; lia).
          destruct gw_set; [destruct (gw_paths =? k)|];
          repeat (gen_simpl; rewrite ?On, ?get_nth, ?Hnth, ?Ic, ?Ov0; cbn [negb orb];
                  replace (Z.of_nat n + 1)%Z with (Z.of_nat (S n)) by lia; rewrite ?get_nth, ?Ov1, ?code_opt, ?code_inf;
                  match goal with
                  | |- context [if ?c then _ else _] => destruct c eqn:?
                  | |- context [match status_of r with _ => _ end] => destruct (status_of r) eqn:?
                  end).
          all: try congruence.
          all: do 2 (gen_simpl; rewrite ?On, ?get_nth, ?Hnth, ?Ic, ?Ov0; cbn [negb orb]; replace (Z.of_nat n + 1)%Z with (Z.of_nat (S n)) by lia; rewrite ?get_nth, ?Ov1, ?code_opt, ?code_inf).
          all: try congruence.
          all: try solve [cbn; gen_simpl; rewrite ?On; repeat split; auto].
          all: try solve [eapply agrees_mono; [apply IH; [lia|gen_simpl; reflexivity]|gen_simpl; reflexivity|gen_simpl; reflexivity]].
          all: try solve [cbn [negb orb is_optimal] in *; cbv iota in *; congruence].
    }
    assert (LS : forall z, at_o_n z = Z.of_nat n1 -> at_solved z = false -> at_chosen z = 0%Z ->
                  body_ok (kloop pre (of_list ov) (krange lb (S ne)) (skipn n1 sts) n1) (LOOP z)).
    { intros z Oz Sz Cz. unfold LOOP. unfold py_seq, py_for, py_return. cbv beta.
      replace (Z.of_nat ne + 1)%Z with (Z.of_nat (S ne)) by lia. rewrite range2_krange.
      specialize (L (krange lb (S ne)) n1 z Hn1 Oz).
      destruct (kloop pre (of_list ov) (krange lb (S ne)) (skipn n1 sts) n1) as [res m].
      destruct (py_loop B (map Z.of_nat (krange lb (S ne))) z) as [c s']. cbn in L. destruct L as (L1 & L2). cbn.
      destruct res; try contradiction.
      - destruct L2 as (-> & A & C). cbn. repeat split; assumption.
      - destruct L2 as ([-> | ->] & A & C); cbn; rewrite A, C, Sz, Cz; repeat split; assumption || reflexivity.
      - destruct L2 as (-> & A & C). cbn. rewrite A, C, Sz, Cz. repeat split; assumption || reflexivity. }
    unfold py_seq at 1. unfold py_if at 1. cbv beta.
    destruct guessed; [unfold py_assign at 1|unfold py_skip at 1]; cbv beta iota; seq_assigns;
      (apply LS; [unfold n1; gen_simpl; lia|gen_simpl; reflexivity|gen_simpl; reflexivity]).
  Qed.

  (* what the generated function returns *)
  Theorem gen_mfdc_main_spec : forall (guessed : bool) (aux_gw aux_lb lb ne : nat) (last0 : Z),
    let n1 := (if guessed then aux_gw else 0) + aux_lb in
    n1 <= length sts ->
    let o := kloop pre (of_list ov) (krange lb (S ne)) (skipn n1 sts) n1 in
    let r := fn (codes sts) 0 last0 ov guessed (Z.of_nat aux_gw) (Z.of_nat aux_lb) (Z.of_nat lb) (Z.of_nat ne) gw_set (Z.of_nat gw_paths) in
    g_n r = Z.of_nat (snd o) /\
    match fst o with
    | Solved k => g_res r = Ret true /\ g_solved r = true /\ g_chosen r = Z.of_nat k
    | NotSolved => g_res r = Ret false /\ g_solved r = false /\ g_chosen r = 0%Z
    | Starved => g_res r = Exc IndexError /\ g_solved r = false /\ g_chosen r = 0%Z
    | _ => False
    end.
  Proof.
    intros guessed aux_gw aux_lb lb ne last0 n1 Hn1 o r. pose proof (body_sem guessed aux_gw aux_lb lb ne last0 Hn1) as H. fold n1 in H. fold o in H.
    unfold r, g_res, g_n, g_solved, g_chosen, fn. cbv zeta.
    destruct (body _ _ _ _ _ _ _ _ _ _ _ _) as [c s']. cbn [fst snd]. destruct o as [res m]. unfold body_ok in H. destruct H as (H1 & H2). split; [exact H1|].
    cbn [fst]. destruct res; try contradiction; destruct H2 as (-> & -> & ->); repeat split; reflexivity.
  Qed.

  (* C13_mfdc_main_inconclusive for the regenerated main loop: an inconclusive status among the invocations of the main loop => False, flag off *)
  Theorem gen_mfdc_main_inconclusive : forall (guessed : bool) (aux_gw aux_lb lb ne : nat) (last0 : Z) (p : nat) (x : raw),
    let n1 := (if guessed then aux_gw else 0) + aux_lb in
    n1 <= length sts ->
    let r := fn (codes sts) 0 last0 ov guessed (Z.of_nat aux_gw) (Z.of_nat aux_lb) (Z.of_nat lb) (Z.of_nat ne) gw_set (Z.of_nat gw_paths) in
    nth_error sts p = Some x -> conclusive (status_of x) = false -> n1 <= p -> (Z.of_nat p < g_n r)%Z ->
    g_res r = Ret false /\ g_solved r = false.
  Proof.
    intros guessed aux_gw aux_lb lb ne last0 p x n1 Hn1 r Hx Hc Hp Hlt.
    pose proof (gen_mfdc_main_spec guessed aux_gw aux_lb lb ne last0 Hn1) as (M1 & M2). fold n1 in M1, M2. fold r in M1, M2.
    destruct (kloop pre (of_list ov) (krange lb (S ne)) (skipn n1 sts) n1) as [res m] eqn:E. cbn [fst snd] in M1, M2.
    assert (res = NotSolved).
    { eapply (kloop_inconclusive _ _ _ _ _ (p - n1) x) in E; eauto; [|lia].
      rewrite nth_error_skipn'. replace (n1 + (p - n1)) with p by lia. exact Hx. }
    subst res. destruct M2 as (A & B & _). split; assumption.
  Qed.
End Mfdc.
Print Assumptions gen_mfdc_main_spec.
Print Assumptions gen_mfdc_main_inconclusive.

(* the link to Search.fd_solve (mfdc_solve): with the auxiliary phases read as fd_solve itself computes them -- the lower bound and the number of
   invocations of lb_phase (the nested MinGenSet search), one more invocation for the guessed-weights model, which is kept iff it was reported
   optimal -- the regenerated main loop returns exactly the result, the number of invocations and the chosen k of fd_solve *)
Lemma kloop_ext pre pre' ov : (forall k, pre k = pre' k) -> forall ks sts n, kloop pre ov ks sts n = kloop pre' ov ks sts n.
Proof.
  intros E. induction ks as [|k ks IH]; intros sts n; cbn [kloop]; [reflexivity|]. rewrite (E k).
  destruct (pre' k); [reflexivity|]. destruct sts as [|r sts]; [reflexivity|]. destruct (ov (S n)); [reflexivity|].
  destruct (status_of r); try reflexivity. apply IH.
Qed.

Lemma kloop_ext_ov pre ov ov' : (forall n, ov n = ov' n) -> forall ks sts n, kloop pre ov ks sts n = kloop pre ov' ks sts n.
Proof.
  intros E. induction ks as [|k ks IH]; intros sts n; cbn [kloop]; [reflexivity|]. rewrite !E.
  destruct (pre k); [reflexivity|]. destruct sts as [|r sts]; [reflexivity|]. destruct (ov' (S n)); [reflexivity|].
  destruct (status_of r); try reflexivity. apply IH.
Qed.

Definition same_as (o : outcome) (r : gen_result) : Prop :=
  g_n r = Z.of_nat (used o) /\
  match so_res o with
  | Solved k => g_res r = Ret true /\ g_solved r = true /\ g_chosen r = Z.of_nat k
  | NotSolved => g_res r = Ret false /\ g_solved r = false /\ g_chosen r = 0%Z
  | Starved => g_res r = Exc IndexError /\ g_solved r = false /\ g_chosen r = 0%Z
  | _ => False
  end.

Theorem gen_mfdc_main_is_fd_solve : forall (P : fd_params) (ov : list bool) (sts : list raw) (last0 : Z),
  length sts < length ov -> (forall n, over P n = of_list ov n) -> (forall k, greedy P k = false) -> upper_excl P = false ->
  match lb_phase false false (use_mgs P) (lb0 P) (nweights P) sts with
  | LB lb n1 =>
      n1 <= length sts ->
      if guessed P then
        match skipn n1 sts with
        | [] => True
        | r :: _ =>
            same_as (fd_solve false false P sts)
                    (fn (codes sts) 0 last0 ov true (Z.of_nat (S n1)) 0 (Z.of_nat lb) (Z.of_nat (nedges P)) (is_optimal (status_of r)) (Z.of_nat (gw_paths P)))
        end
      else
        same_as (fd_solve false false P sts)
                (fn (codes sts) 0 last0 ov false 0 (Z.of_nat n1) (Z.of_nat lb) (Z.of_nat (nedges P)) false 0)
  | _ => True
  end.
Proof.
  intros P ov sts last0 Hov Hover Hgr Hex. unfold fd_solve.
  destruct (lb_phase false false (use_mgs P) (lb0 P) (nweights P) sts) as [lb n1| |]; [|exact I|exact I].
  intros Hn1. rewrite Hex. unfold upper.
  destruct (guessed P).
  - destruct (skipn n1 sts) as [|r sts2] eqn:Esk; [exact I|].
    destruct (skipn_cons_inv _ _ _ _ Esk) as [Hr Esk2].
    assert (HS : S n1 <= length sts) by (apply nth_error_Some; congruence).
    pose proof (gen_mfdc_main_spec ov sts (is_optimal (status_of r)) (gw_paths P) Hov true (S n1) 0 lb (nedges P) last0) as M.
    cbv zeta beta iota in M. specialize (M ltac:(lia)). replace (S n1 + 0) with (S n1) in M by lia. rewrite Esk2 in M.
    rewrite (kloop_ext _ (given_match (if is_optimal (status_of r) then Some (gw_paths P) else None)) (over P)) by (intros k; rewrite Hgr; apply orb_false_r).
    rewrite (kloop_ext_ov _ (over P) (of_list ov) Hover).
    destruct (kloop _ (of_list ov) (krange lb (S (nedges P))) sts2 (S n1)) as [res m]. exact M.
  - pose proof (gen_mfdc_main_spec ov sts false 0 Hov false 0 n1 lb (nedges P) last0) as M.
    cbv zeta beta iota in M. cbn [Nat.add] in M. specialize (M Hn1).
    rewrite (kloop_ext _ (given_match None) (over P)) by (intros k; rewrite Hgr; reflexivity).
    rewrite (kloop_ext_ov _ (over P) (of_list ov) Hover).
    destruct (kloop _ (of_list ov) (krange lb (S (nedges P))) (skipn n1 sts) n1) as [res m]. exact M.
Qed.
Print Assumptions gen_mfdc_main_is_fd_solve.

Definition R (s : status) : raw := mkraw s false.
(* two auxiliary invocations (not looked at), then k = 2 infeasible, k = 3 optimal; a kept guessed-weights model with 3 walks makes k = 3 need no solver;
   the clock running out after the third invocation ends the search *)
Example gen_mfdc_main_example : fn (codes [R Other; R Other; R Infeasible; R Optimal]) 0 7 [false; false; false; false; false; false] true 1 1 2 6 false 0 = (Ret true, 4, 0, true, 3)%Z.
Proof. vm_compute. reflexivity. Qed.
Example gen_mfdc_main_example_kept_model : fn (codes [R Other; R Other; R Infeasible]) 0 7 [false; false; false; false; false; false] true 1 1 2 6 true 3 = (Ret true, 3, 1, true, 3)%Z.
Proof. vm_compute. reflexivity. Qed.
Example gen_mfdc_main_example_clock : fn (codes [R Other; R Other; R Infeasible; R Optimal]) 0 7 [false; false; false; true; true; true] true 1 1 2 6 false 0 = (Ret false, 3, 1, false, 0)%Z.
Proof. vm_compute. reflexivity. Qed.
