(* SearchMgsSpec.v — MinGenSet.solve, regenerated (Gen_search_mgs.v), IS Search.run_mgs false = mgs_solve false (mgs_first lowerbound)
   (mgs_size len(initial_numbers) extra_cuts): for every list of solver outcomes, lower bound, number of numbers and extra cuts of the partition
   constraints (the search starts at max(1, lowerbound), /repo 2a5d8e1).  Hence the C13 theorems about mgs_solve hold of the regenerated loop. *)
From Coq Require Import List Bool Arith ZArith Lia.
Import ListNotations.
From FP Require Import PyRt PyLin Search SearchProofs1 SearchProofs2.
From FPGen Require Import SearchSpec Gen_search_mgs.

Definition run (sts : list raw) (lb n cuts : nat) (last0 : Z) : gen_result :=
  fn (codes sts) 0 last0 (Z.of_nat lb) (Z.of_nat n) (Z.of_nat cuts).

Theorem gen_mgs_spec : forall (sts : list raw) (lb n cuts : nat) (last0 : Z),
  matches (run_mgs false lb n cuts sts) last0 sts (run sts lb n cuts last0).
Proof.
  intros sts lb n cuts last0. unfold matches, run, g_res, g_n, g_last, g_solved, g_chosen, fn, body, init_st.
  seq_assigns. loop_then_false.
  match goal with |- context [then_false (py_loop ?B _ _)] =>
    pose proof (search_loop_sem st at_o_n at_o_last at_chosen at_solved (codes sts) B) as L end.
  cbv beta. gen_simpl. rewrite !Zmax_py_max.
  replace (Z.max 1 (Z.of_nat lb)) with (Z.of_nat (mgs_first lb)) by (unfold mgs_first; lia).
  replace (Z.max (Z.of_nat (mgs_first lb) + 1) (Z.of_nat n + 2 + Z.of_nat cuts)) with (Z.of_nat (mgs_upper (mgs_first lb) (mgs_size n cuts)))
    by (unfold mgs_upper, mgs_size; lia).
  rewrite range2_krange.
  match type of L with ?H -> _ => assert (HB : H) by (kbody_tac ltac:(gen_simpl)) end.
  specialize (L HB sts eq_refl (krange (mgs_first lb) (mgs_upper (mgs_first lb) (mgs_size n cuts))) 0).
  match goal with |- context [py_loop ?B ?l ?s0] => specialize (L s0 eq_refl) end.
  cbn [skipn] in L. unfold run_mgs, mgs_solve, mgs_range. rewrite mgs_loop_kloop.
  destruct (kloop never never (krange (mgs_first lb) (mgs_upper (mgs_first lb) (mgs_size n cuts))) sts 0) as [r m].
  match goal with |- context [then_false ?X] => destruct (then_false X) as [c s'] end.
  cbn in L. gen_simpl in L. destruct L as (L1 & L2 & L3 & L4). cbn [so_res used fst snd py_outcome].
  split; [exact L1|]. split; [intros ->; apply L2; reflexivity|]. split; [intros H; apply L3; lia|].
  destruct r; try contradiction; destruct L4 as (-> & -> & ->); repeat split; reflexivity.
Qed.
Print Assumptions gen_mgs_spec.

(* C13_mgs_search_sound *)
Theorem gen_mgs_search_sound : forall sts lb n cuts last0, g_res (run sts lb n cuts last0) = Ret true ->
  exists k, g_chosen (run sts lb n cuts last0) = Z.of_nat k /\ g_solved (run sts lb n cuts last0) = true /\
    mgs_first lb <= k < mgs_upper (mgs_first lb) (mgs_size n cuts) /\
    map status_of (firstn (Z.to_nat (g_n (run sts lb n cuts last0))) sts) = repeat Infeasible (k - mgs_first lb) ++ [Optimal].
Proof.
  intros sts lb n cuts last0 H. destruct (matches_true _ _ _ _ (gen_mgs_spec sts lb n cuts last0) H) as (k & E & C & F & N).
  exists k. split; [exact C|]. split; [exact F|]. rewrite N. exact (mgs_search_sound (mgs_first lb) (mgs_size n cuts) sts k E).
Qed.
Print Assumptions gen_mgs_search_sound.

(* C13_mgs_search_inconclusive (the loop since /repo 03febc7) *)
Theorem gen_mgs_search_inconclusive : forall sts lb n cuts last0 p, inconclusive_at sts p -> (Z.of_nat p < g_n (run sts lb n cuts last0))%Z ->
  g_res (run sts lb n cuts last0) = Ret false /\ g_solved (run sts lb n cuts last0) = false.
Proof.
  intros sts lb n cuts last0 p Hi Hp. pose proof (gen_mgs_spec sts lb n cuts last0) as M. apply (matches_notsolved _ _ _ _ M).
  apply (mgs_search_inconclusive (mgs_first lb) (mgs_size n cuts) sts p Hi). destruct M as (M1 & _). rewrite M1 in Hp. unfold run_mgs in Hp. lia.
Qed.
Print Assumptions gen_mgs_search_inconclusive.

Theorem gen_mgs_flag_and_status : forall sts lb n cuts last0,
  (g_res (run sts lb n cuts last0) = Ret true <-> g_solved (run sts lb n cuts last0) = true) /\
  ((0 < g_n (run sts lb n cuts last0))%Z -> exists x, nth_error sts (Z.to_nat (g_n (run sts lb n cuts last0)) - 1) = Some x /\ g_last (run sts lb n cuts last0) = code (status_of x)).
Proof.
  intros sts lb n cuts last0. pose proof (gen_mgs_spec sts lb n cuts last0) as M. split; [exact (matches_flag _ _ _ _ M)|].
  intros H. pose proof M as (M1 & _). rewrite M1, Nat2Z.id in *. apply (matches_last _ _ _ _ M). lia.
Qed.
Print Assumptions gen_mgs_flag_and_status.

Definition R (s : status) : raw := mkraw s false.
(* lower bound 0 starts at k = 1; three numbers and one extra cut: range(1, 6) *)
Example gen_mgs_example : run [R Infeasible; R Infeasible; R Optimal] 0 3 1 7 = (Ret true, 3, 0, true, 3)%Z.
Proof. vm_compute. reflexivity. Qed.
Example gen_mgs_example_unknown : run [R Infeasible; R Other; R Optimal] 0 3 1 7 = (Ret false, 2, 3, false, 0)%Z.
Proof. vm_compute. reflexivity. Qed.
Example gen_mgs_example_exhausted : run [R Infeasible; R Infeasible; R Infeasible; R Infeasible; R Infeasible; R Optimal] 0 3 1 7 = (Ret false, 5, 1, false, 0)%Z.
Proof. vm_compute. reflexivity. Qed.
Example gen_mgs_example_lowerbound_above_range : run [R Optimal] 9 3 0 7 = (Ret true, 1, 0, true, 9)%Z.
Proof. vm_compute. reflexivity. Qed.
