(* MaxOccurrenceSpec.v — proved on every run AGAINST THE GENERATED MODEL Gen_max_occurrence.v, which
   harness/translate.py regenerates from flowpaths/utils/graphutils.py :: max_occurrence.  Not part of
   coq/theories: an edit of the Python source changes Gen_max_occurrence.fn and this file stops compiling.

   The proofs never restate the generated code: loops are handled with the invariant rule PyRt.py_loop_inv
   (the loop body is taken from the goal by unification) and the straight-line parts by unfolding the
   combinators, so renaming of locals, comments, logging or docstrings do not matter. *)
From Coq Require Import List NArith ZArith QArith Bool Lia Lqa.
Import ListNotations.
From FP Require Import PyRt.
From FPGen Require Import Gen_max_occurrence.

(* ------------------------------------------------------------------ declarative side *)
(* the edge e is traversed by the node path p: its endpoints are consecutive in p *)
Definition on_path (e : edge) (p : list node) : Prop := exists l1 l2, p = l1 ++ fst e :: snd e :: l2.
Definition on_pathb (e : edge) (p : list node) : bool := existsb (edge_eqb e) (pairs p).
(* length of an edge: the dict's value, 1 when the edge is not a key *)
Definition elen (lens : list (edge * Q)) (e : edge) : Q := py_dict_get edge_eqb lens e 1.
(* total length of the seq edges traversed by p (seq is a list: repeated edges count repeatedly, as in the code) *)
Fixpoint occ (lens : list (edge * Q)) (p : list node) (sq : list edge) : Q :=
  match sq with [] => 0 | e :: r => (if on_pathb e p then elen lens e else 0) + occ lens p r end.
(* r is the maximum of 0 and the values *)
Definition is_max0 (r : Q) (vals : list Q) : Prop :=
  0 <= r /\ (forall v, In v vals -> v <= r) /\ (r == 0 \/ exists v, In v vals /\ r == v).

Lemma on_pathb_spec : forall e p, on_pathb e p = true <-> on_path e p.
Proof.
  intros [u v] p; unfold on_pathb, on_path; cbn [fst snd].
  rewrite <- in_pairs_iff. apply py_mem_edge_In.
Qed.

Lemma occ_snoc : forall lens p l e,
  occ lens p (l ++ [e]) == occ lens p l + (if on_pathb e p then elen lens e else 0).
Proof.
  induction l as [|a l IH]; intros; cbn [occ app]; [ring | rewrite IH; ring].
Qed.

Lemma is_max0_nil : is_max0 0 [].
Proof. repeat split; [apply Qle_refl | intros v [] | left; reflexivity]. Qed.

Lemma is_max0_snoc : forall m vals v v', is_max0 m vals -> v' == v ->
  is_max0 (if Qltb m v' then v' else m) (vals ++ [v]).
Proof.
  intros m vals v v' (H0 & Hub & Hatt) E.
  destruct (Qltb m v') eqn:C.
  - apply Qltb_lt in C. repeat split.
    + lra.
    + intros w Hw; apply in_app_or in Hw; destruct Hw as [Hw | [<- | []]]; [specialize (Hub w Hw); lra | lra].
    + right; exists v; split; [apply in_or_app; right; left; reflexivity | exact E].
  - apply Qltb_ge in C. repeat split.
    + exact H0.
    + intros w Hw; apply in_app_or in Hw; destruct Hw as [Hw | [<- | []]]; [auto | lra].
    + destruct Hatt as [Z | [w [Hw Ew]]]; [left; exact Z | right; exists w; split; [apply in_or_app; left; exact Hw | exact Ew]].
Qed.

(* ------------------------------------------------------------------ the generated function *)
Ltac py_unfold := unfold py_seq, py_if, py_assign, py_skip, py_return, py_raise, py_continue, py_guard, py_for.
(* apply the invariant rule to the outermost loop of the goal; the loop body is found by unification *)
Ltac loop_inv Inv Post sf :=
  match goal with |- context [py_loop ?B0 ?l0 ?s0] =>
    let H := fresh "HL" in
    assert (H : match py_loop B0 l0 s0 with (CNormal, s') => Inv l0 s' | (c, s') => Post c s' end);
    [ apply (py_loop_inv _ B0 Inv Post l0 s0) | destruct (py_loop B0 l0 s0) as [[| |?r|?e] sf] ] end.
Ltac st_simpl := cbn [x0 x1 x2 set_x0 set_x1 set_x2 fst snd].

(* roles of the generated state fields (Gen_max_occurrence.v lists them in its header comment) *)
Notation f_edges := x0 (only parsing).     (* path_edges *)
Notation f_max := x1 (only parsing).       (* max_occurence *)
Notation f_occ := x2 (only parsing).       (* occurence *)

Theorem max_occurrence_spec : forall (sq : list edge) (paths : list (list node)) (lens : list (edge * Q)),
  exists r, fn sq paths lens = Ret r /\ is_max0 r (map (fun p => occ lens p sq) paths).
Proof.
  intros sq paths lens. unfold fn, py_run, body, init_st. py_unfold. cbn [fst snd].
  loop_inv (fun (done : list (list node)) (s : st) => is_max0 (f_max s) (map (fun p => occ lens p sq) done))
           (fun (c : ctl Q) (s : st) => False) sf.
  - (* initially *) st_simpl. apply is_max0_nil.
  - (* one iteration of the outer loop *)
    intros done p rest s1 _ Hinv. py_unfold.
    (* inner loop: adds up the lengths of the seq edges that are among the consecutive pairs of the path *)
    loop_inv (fun (d2 : list edge) (s : st) => f_max s = f_max s1 /\ f_edges s = pairs p /\ f_occ s == occ lens p d2)
             (fun (c : ctl Q) (s : st) => False) s3.
    + st_simpl. rewrite py_consecutive_pairs_pairs. repeat split; reflexivity.
    + intros d2 e rest2 s2 _ (I0 & I1 & I2).
      unfold py_mem. rewrite I1. fold (on_pathb e p).
      destruct (on_pathb e p) eqn:Eon; st_simpl;
        (repeat split; [exact I0 | exact I1 | rewrite occ_snoc, Eon, I2; unfold elen; change (inject_Z 1) with 1; ring]).
    + destruct HL as (I0 & I1 & I2).
      pose proof (is_max0_snoc _ _ (occ lens p sq) (f_occ s3) Hinv I2) as M. rewrite <- I0 in M.
      rewrite map_app; cbn [map].
      destruct (Qltb (f_max s3) (f_occ s3)); st_simpl; exact M.
    + contradiction.
    + contradiction.
    + contradiction.
  - (* after the outer loop the accumulated maximum is returned *)
    cbn [fst]. eexists; split; [reflexivity | exact HL].
  - contradiction.
  - contradiction.
  - contradiction.
Qed.
Print Assumptions max_occurrence_spec.

(* the statement in the words of the property: with non-negative lengths the result is 0 for no paths and
   otherwise the largest total length of the seq edges lying on one path *)
Theorem max_occurrence_is_max_over_paths : forall (sq : list edge) (paths : list (list node)) (lens : list (edge * Q)),
  (forall e, 0 <= elen lens e) ->
  exists r, fn sq paths lens = Ret r /\
    (forall p, In p paths -> occ lens p sq <= r) /\
    (paths = [] -> r == 0) /\
    (paths <> [] -> exists p, In p paths /\ r == occ lens p sq).
Proof.
  intros sq paths lens Hpos.
  destruct (max_occurrence_spec sq paths lens) as [r [E (H0 & Hub & Hatt)]].
  assert (Hocc : forall p l, 0 <= occ lens p l).
  { intros p l; induction l as [|e l IH]; cbn [occ]; [apply Qle_refl|].
    destruct (on_pathb e p); [specialize (Hpos e)|]; lra. }
  exists r; split; [exact E|]. split; [|split].
  - intros p Hp; apply Hub, in_map_iff; exists p; auto.
  - intros ->. destruct Hatt as [Z | [v [[] _]]]; exact Z.
  - intros Hne. destruct Hatt as [Z | [v [Hv Ev]]].
    + destruct paths as [|p ps]; [congruence|]. exists p; split; [left; reflexivity|].
      assert (occ lens p sq <= r) by (apply Hub; left; reflexivity). specialize (Hocc p sq). lra.
    + apply in_map_iff in Hv; destruct Hv as [p [<- Hp]]. exists p; auto.
Qed.
Print Assumptions max_occurrence_is_max_over_paths.

(* an edge counts only if it is TRAVERSED by the path — visiting both endpoints is not enough *)
Theorem on_path_needs_consecutive_endpoints : on_pathb (1, 3)%N [1; 2; 3]%N = false /\ on_pathb (2, 3)%N [1; 2; 3]%N = true.
Proof. split; reflexivity. Qed.

(* non-vacuity: two paths, lengths 5 and default 1; the maximum 6 is attained by the second path *)
Example max_occurrence_example :
  fn [(1, 2); (2, 3); (1, 3)]%N [[1; 3]; [1; 2; 3]]%N [((1, 2)%N, 5)] = Ret (0 + (0 + 5 + 1)).
Proof. vm_compute. reflexivity. Qed.
Example max_occurrence_example_no_paths : fn [(1, 2)]%N [] [] = Ret 0.
Proof. vm_compute. reflexivity. Qed.
