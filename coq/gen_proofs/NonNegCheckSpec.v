(* NonNegCheckSpec.v — proved on every run AGAINST THE GENERATED MODEL Gen_nonneg_check.v, which
   harness/translate.py regenerates from flowpaths/abstractsourcesinkgraph.py ::
   AbstractSourceSinkGraph.get_max_flow_value_and_check_non_negative_flow.  Not part of coq/theories.

   Embedding: the graph is the list of (u, v, data) the harness reads from self.edges(data=True); data is the
   edge's attribute dict restricted to flow_attr (None = key absent); edges_to_ignore is None or a set of edges. *)
From Coq Require Import List NArith ZArith QArith Bool Lia Lqa.
Import ListNotations.
From FP Require Import PyRt.
From FPGen Require Import Gen_nonneg_check.

(* ------------------------------------------------------------------ declarative side *)
Definition ignored (ign : option (list edge)) (e : edge) : Prop :=
  match ign with None => False | Some l => In e l end.
(* an edge that must be rejected: it lacks the attribute or carries a negative value *)
Definition bad (d : option Q) : Prop := d = None \/ exists q, d = Some q /\ q < 0.
Definition good (d : option Q) : Prop := exists q, d = Some q /\ 0 <= q.
Definition has_bad_edge (es : list dedge) (ign : option (list edge)) : Prop :=
  exists u v d, In (u, v, d) es /\ ~ ignored ign (u, v) /\ bad d.
(* m is the largest value over the non-ignored edges of es, -inf if there is none *)
Definition is_xmax (m : xq) (es : list dedge) (ign : option (list edge)) : Prop :=
  (forall u v q, In (u, v, Some q) es -> ~ ignored ign (u, v) -> xq_le (Fin q) m) /\
  match m with
  | NegInf => forall u v d, In (u, v, d) es -> ignored ign (u, v)
  | Fin q => exists u v, In (u, v, Some q) es /\ ~ ignored ign (u, v)
  end.

Lemma ignored_mem : forall ign e, py_mem edge_eqb e (py_opt_get [] ign) = true <-> ignored ign e.
Proof.
  intros [l|] e; cbn [py_opt_get ignored]; [apply py_mem_edge_In|].
  split; [discriminate | intros []].
Qed.
Lemma ignored_dec : forall ign e, ignored ign e \/ ~ ignored ign e.
Proof.
  intros ign e. destruct (py_mem edge_eqb e (py_opt_get [] ign)) eqn:E.
  - left; apply ignored_mem; exact E.
  - right; intro H; apply ignored_mem in H; congruence.
Qed.
Lemma good_not_bad : forall d, good d -> ~ bad d.
Proof. intros d [q [-> Hq]] [H | [q' [H Hn]]]; [discriminate | injection H as <-; lra]. Qed.

Lemma xq_max_step : forall m es ign u v q, is_xmax m es ign -> ~ ignored ign (u, v) ->
  is_xmax (xq_max m (Fin q)) (es ++ [(u, v, Some q)]) ign.
Proof.
  intros m es ign u v q [Hub Hatt] Hl. unfold xq_max.
  destruct (xq_ltb m (Fin q)) eqn:C.
  - split.
    + intros u' v' q' Hi Hl'. apply in_app_or in Hi. destruct Hi as [Hi | [E | []]].
      * specialize (Hub _ _ _ Hi Hl'). destruct m as [|mq]; [destruct Hub|]. cbn [xq_le xq_ltb] in *. apply Qltb_lt in C. lra.
      * injection E as <- <- <-. cbn [xq_le]. apply Qle_refl.
    + exists u, v. split; [apply in_or_app; right; left; reflexivity | exact Hl].
  - destruct m as [|mq]; [discriminate|]. cbn [xq_ltb] in C. apply Qltb_ge in C. split.
    + intros u' v' q' Hi Hl'. apply in_app_or in Hi. destruct Hi as [Hi | [E | []]].
      * exact (Hub _ _ _ Hi Hl').
      * injection E as <- <- <-. cbn [xq_le]. exact C.
    + destruct Hatt as [u' [v' [Hi Hl']]]. exists u', v'. split; [apply in_or_app; left; exact Hi | exact Hl'].
Qed.
Lemma xq_max_skip : forall m es ign u v d, is_xmax m es ign -> ignored ign (u, v) ->
  is_xmax m (es ++ [(u, v, d)]) ign.
Proof.
  intros m es ign u v d [Hub Hatt] Hi. split.
  - intros u' v' q' Hin Hl'. apply in_app_or in Hin. destruct Hin as [Hin | [E | []]].
    + exact (Hub _ _ _ Hin Hl').
    + injection E as <- <- _. contradiction.
  - destruct m as [|mq].
    + intros u' v' d' Hin. apply in_app_or in Hin. destruct Hin as [Hin | [E | []]].
      * exact (Hatt _ _ _ Hin).
      * injection E as <- <- _. exact Hi.
    + destruct Hatt as [u' [v' [Hin Hl']]]. exists u', v'. split; [apply in_or_app; left; exact Hin | exact Hl'].
Qed.

(* ------------------------------------------------------------------ the generated function *)
Ltac py_unfold := unfold py_seq, py_if, py_assign, py_skip, py_return, py_raise, py_continue, py_guard, py_for.
Ltac loop_inv Inv Post sf :=
  match goal with |- context [py_loop ?B0 ?l0 ?s0] =>
    let H := fresh "HL" in
    assert (H : match py_loop B0 l0 s0 with (CNormal, s') => Inv l0 s' | (c, s') => Post c s' end);
    [ apply (py_loop_inv _ B0 Inv Post l0 s0) | destruct (py_loop B0 l0 s0) as [[| |?r|?e] sf] ] end.
Ltac st_simpl := cbn [x0 x1 set_x0 set_x1 fst snd].

(* Exactly one of two things happens: some non-ignored edge is bad and ValueError is raised; or every
   non-ignored edge carries a non-negative value and the maximum of those values (-inf if none) is returned.
   No other exception (KeyError from data[flow_attr], TypeError from `in None`) and no fall-through. *)
(* roles of the generated state fields (Gen_nonneg_check.v lists them in its header comment) *)
Notation f_ign := x0 (only parsing).       (* edges_to_ignore (re-assigned parameter) *)
Notation f_max := x1 (only parsing).       (* w_max *)

Theorem nonneg_check_spec : forall (G : pygraph) (ign : option (list edge)),
  (has_bad_edge (g_edges G) ign /\ fn G ign = Exc ValueError) \/
  ((forall u v d, In (u, v, d) (g_edges G) -> ~ ignored ign (u, v) -> good d) /\
   exists m, fn G ign = Ret m /\ is_xmax m (g_edges G) ign).
Proof.
  intros G ign. unfold fn, py_run, body, init_st. py_unfold. st_simpl.
  set (IGN := py_opt_get [] ign).
  (* prologue: whatever edges_to_ignore was, the local now holds a set (None was replaced by the empty set) *)
  match goal with |- context [if py_is_none ign then ?X else ?Y] =>
    assert (Hpre : exists s0, (if py_is_none ign then X else Y) = (CNormal, s0) /\ f_max s0 = NegInf /\ f_ign s0 = Some IGN)
      by (destruct ign; eexists; repeat split);
    destruct Hpre as [s0 [-> [H0 H1]]] end.
  cbv beta iota.
  loop_inv (fun (done : list dedge) (s : st) =>
              f_ign s = Some IGN /\ (forall u v d, In (u, v, d) done -> ~ ignored ign (u, v) -> good d) /\ is_xmax (f_max s) done ign)
           (fun (c : ctl xq) (s : st) => c = CRaise ValueError /\ has_bad_edge (g_edges G) ign) sf.
  - (* initially *) st_simpl. rewrite ?H0. split; [exact H1|]. split; [intros u v d []|]. split; [intros u v q [] | intros u v d []].
  - (* one edge *)
    intros done [[u v] d] rest s1 El (I1 & I2 & I3).
    assert (Hin : In (u, v, d) (g_edges G)) by (rewrite El; apply in_or_app; right; left; reflexivity).
    rewrite I1. cbn [py_is_none py_opt_get]. fold IGN.
    destruct (py_mem edge_eqb (u, v) IGN) eqn:Em.
    + (* ignored: continue *)
      apply ignored_mem in Em. split; [exact I1|]. split.
      * intros u' v' d' Hi Hl. apply in_app_or in Hi. destruct Hi as [Hi | [E | []]]; [exact (I2 _ _ _ Hi Hl)|].
        injection E as <- <- _. contradiction.
      * apply xq_max_skip; assumption.
    + assert (Hl : ~ ignored ign (u, v)) by (intro H; apply ignored_mem in H; unfold IGN in Em; congruence).
      destruct d as [q|]; cbn [py_is_some py_is_none negb py_opt_get].
      * destruct (Qltb q (inject_Z 0)) eqn:Eneg.
        -- (* negative value *)
           split; [reflexivity|]. exists u, v, (Some q). repeat split; [exact Hin | exact Hl |].
           right. exists q. split; [reflexivity|]. apply Qltb_lt in Eneg. exact Eneg.
        -- st_simpl. split; [exact I1|]. split.
           ++ intros u' v' d' Hi Hl'. apply in_app_or in Hi. destruct Hi as [Hi | [E | []]]; [exact (I2 _ _ _ Hi Hl')|].
              injection E as <- <- <-. exists q. split; [reflexivity|]. apply Qltb_ge in Eneg. exact Eneg.
           ++ apply xq_max_step; assumption.
      * (* attribute missing *)
        split; [reflexivity|]. exists u, v, None. repeat split; [exact Hin | exact Hl | left; reflexivity].
  - right. destruct HL as (_ & I2 & I3). split; [exact I2|]. eexists; split; [reflexivity | exact I3].
  - destruct HL as [E _]; discriminate.
  - destruct HL as [E _]; discriminate.
  - left. destruct HL as [E Hb]. injection E as ->. split; [exact Hb | reflexivity].
Qed.
Print Assumptions nonneg_check_spec.

(* the two directions in the words of the property *)
Theorem nonneg_check_raises_iff : forall (G : pygraph) (ign : option (list edge)),
  fn G ign = Exc ValueError <-> has_bad_edge (g_edges G) ign.
Proof.
  intros G ign. destruct (nonneg_check_spec G ign) as [[Hb E] | [Hg [m [E _]]]].
  - split; auto.
  - split; [rewrite E; discriminate|].
    intros [u [v [d [Hi [Hl Hb]]]]]. exfalso. exact (good_not_bad _ (Hg _ _ _ Hi Hl) Hb).
Qed.
Print Assumptions nonneg_check_raises_iff.

Theorem nonneg_check_returns_max : forall (G : pygraph) (ign : option (list edge)),
  ~ has_bad_edge (g_edges G) ign -> exists m, fn G ign = Ret m /\ is_xmax m (g_edges G) ign.
Proof.
  intros G ign Hn. destruct (nonneg_check_spec G ign) as [[Hb _] | [_ H]]; [contradiction | exact H].
Qed.
Print Assumptions nonneg_check_returns_max.

Theorem nonneg_check_no_other_outcome : forall (G : pygraph) (ign : option (list edge)),
  fn G ign <> RetNone /\ forall e, fn G ign = Exc e -> e = ValueError.
Proof.
  intros G ign. destruct (nonneg_check_spec G ign) as [[_ E] | [_ [m [E _]]]]; rewrite E; split;
    try discriminate; intros e H; congruence.
Qed.
Print Assumptions nonneg_check_no_other_outcome.

(* non-vacuity *)
Definition G1 : pygraph := mk_pygraph [1; 2; 3]%N [(1, 2, Some (-1 # 1)); (2, 3, Some (5 # 2))]%N [] [].
Example nonneg_negative_first_edge_rejected : fn G1 None = Exc ValueError.
Proof. vm_compute. reflexivity. Qed.
Example nonneg_negative_edge_ignored : fn G1 (Some [(1, 2)%N]) = Ret (Fin (5 # 2)).
Proof. vm_compute. reflexivity. Qed.
Example nonneg_missing_attribute_rejected : fn (mk_pygraph [1; 2]%N [(1, 2, None)]%N [] []) (Some []) = Exc ValueError.
Proof. vm_compute. reflexivity. Qed.
Example nonneg_all_ignored_gives_neg_inf : fn G1 (Some [(2, 3); (1, 2)]%N) = Ret NegInf.
Proof. vm_compute. reflexivity. Qed.
