#!/bin/bash
# Builds the whole framework offline: Coq development (full .vo build), extraction, OCaml driver.
set -e
cd "$(dirname "$0")/coq"
{ echo "-Q theories FP"
  echo "-arg -w -arg -notation-overridden,-deprecated-hint-without-locality,-deprecated-instance-without-locality"
  ls theories/*.v theories/*/*.v; } > _CoqProject.new
if ! cmp -s _CoqProject.new _CoqProject 2>/dev/null || [ ! -f Makefile ]; then
  mv _CoqProject.new _CoqProject; coq_makefile -f _CoqProject -o Makefile > /dev/null
else rm -f _CoqProject.new; fi
timeout 3000 make -j"${VERIF_JOBS:-12}" > build.log 2>&1 || { tail -40 build.log; echo "COQ BUILD FAILED"; exit 2; }
# extraction + driver (only when the model changed)
if [ ! -x driver/fpmodel ] || [ -n "$(find theories extract driver/fpmodel.ml driver/main.ml -newer driver/fpmodel \( -name '*.vo' -o -name '*.v' -o -name '*.ml' \) 2>/dev/null | head -1)" ]; then
  ( cd driver && timeout 600 coqc -Q ../theories FP ../extract/Extract.v ) > extract.log 2>&1 || { tail -20 extract.log; echo "EXTRACTION FAILED"; exit 2; }
  ( cd driver && timeout 600 ocamlfind ocamlopt -w -a model.mli model.ml fpmodel.ml main.ml -o fpmodel > ../ocaml.log 2>&1 ) || { tail -20 ocaml.log; echo "OCAML BUILD FAILED"; exit 2; }
fi
echo "setup ok"
