#!/bin/bash
# tools/merge.sh <branch> : merge an agent branch and ONLY on success rebuild, regenerate the manifest and commit.
# (use this instead of chaining `git add -A; git commit` after tools/merge_agent.py: a failed merge must stop the chain)
set -e
cd /verif
if [ -n "$(git status --porcelain)" ]; then git add -A; git commit -qm "evidence / work in progress before merging $1"; fi
python3 tools/merge_agent.py "$1"
if grep -rIl '^<<<<<<< \|^>>>>>>> ' --include=*.py --include=*.v --include=*.json --include=*.md --include=*.ml --include=*.sh --include=*.ext . 2>/dev/null | grep -v '^./seeded/\|^./replays/' | grep -q .; then
  echo "CONFLICT MARKERS LEFT:"; grep -rIl '^<<<<<<< \|^>>>>>>> ' --include=*.py --include=*.v --include=*.json --include=*.md . | grep -v '^./seeded/\|^./replays/'; exit 1
fi
./setup.sh | tail -1
/venv/bin/python harness/mkmanifest.py > /dev/null
git add -A; git commit -qm "merge $1; manifest" || true
echo "merged $1 OK"
