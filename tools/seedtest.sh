#!/bin/bash
# tools/seedtest.sh <seed-dir> <i> <property>... : confirm a seeded change (demo passes on HEAD, fails with the
# patch) and run the named checks against it in a scratch worktree of /repo HEAD.
sd="$1"; i="$2"; shift 2
wt=/tmp/seedwt_$$
git -C /repo worktree add -q --detach $wt ${SEED_BASE:-HEAD} || exit 2
( cd $wt && PYTHONPATH=$wt timeout 600 /venv/bin/python $sd/demo_$i.py >/dev/null 2>&1; echo "demo on HEAD: exit $?" )
if ! git -C $wt apply $sd/patch_$i.diff; then echo "PATCH DOES NOT APPLY"; git -C /repo worktree remove --force $wt; exit 3; fi
( cd $wt && PYTHONPATH=$wt timeout 600 /venv/bin/python $sd/demo_$i.py >/dev/null 2>&1; echo "demo with patch: exit $?" )
for p in "$@"; do
  VERIF_OUT=${SEED_OUT:-/root/seedout} VERIF_REPO=$wt ./check $p 2>&1 | grep -E "VIOLATION|^\[$p\]" | cut -c1-170 | awk 'NR<=2 || /^\[/'
done
git -C /repo worktree remove --force $wt
