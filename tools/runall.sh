#!/bin/bash
# tools/runall.sh [seed] : run every claimed check's quick command, one summary line each
seed=${1:-0}
for p in $(/venv/bin/python -c "import json; print(' '.join(c['property_id'] for c in json.load(open('/verif/MANIFEST.json'))['checks']))"); do
  out=$(VERIF_SEED=$seed ./check $p 2>&1); code=$?
  echo "$p exit=$code $(echo "$out" | grep -c '^VIOLATION') violations $(echo "$out" | grep -c '^KNOWN-FINDING') known | $(echo "$out" | grep "^\[$p\]" | sed 's/.*obligations/obligations/')"
done
