#!/venv/bin/python
"""tools/merge_agent.py <branch>: merge an agent branch; resolve the two generated/list files."""
import json, subprocess, sys
br = sys.argv[1]
def sh(*a, check=False):
    return subprocess.run(a, capture_output=True, text=True)
if sh("git", "status", "--porcelain").stdout.strip():
    print("working tree not clean: commit first"); sys.exit(2)
r = sh("git", "merge", "--no-edit", br)
print(r.stdout[-800:], r.stderr[-400:])
conf = sh("git", "diff", "--name-only", "--diff-filter=U").stdout.split()
for f in conf:
    if f == "known_findings.json":
        ours = json.loads(sh("git", "show", "HEAD:known_findings.json").stdout)
        theirs = json.loads(sh("git", "show", br + ":known_findings.json").stdout)
        idx = {(e["property"], e["key"]): i for i, e in enumerate(ours)}
        for e in theirs:
            k = (e["property"], e["key"])
            if k not in idx:
                ours.append(e)
            elif e["status"] == "fixed" and ours[idx[k]]["status"] == "open":
                ours[idx[k]] = e
        json.dump(ours, open("known_findings.json", "w"), indent=1)
        sh("git", "add", f)
    elif f == "MANIFEST.json" or f.startswith("evidence/"):
        sh("git", "checkout", "--ours", f); sh("git", "add", f)
    elif f.endswith(".cache"):
        sh("git", "rm", "-q", "--cached", f)
    elif f in ("harness/gen2.py", "harness/props.py"):
        t = open(f).read()
        t = "\n".join(l for l in t.split("\n") if not (l.startswith("<<<<<<< ") or l.strip() == "=======" or l.startswith(">>>>>>> ")))
        open(f, "w").write(t); sh("git", "add", f)
    elif f.startswith("harness/claims/") and f.endswith(".json"):
        # both sides extended a claim text: the branch's text followed by our suffix
        def show(rev):
            return json.loads(sh("git", "show", f"{rev}:{f}").stdout)
        base_rev = sh("git", "merge-base", "HEAD", br).stdout.strip()
        ours, theirs, base = show("HEAD"), show(br), show(base_rev)
        out = dict(theirs)
        for k in ours:
            if ours[k] != base.get(k) and theirs.get(k) == base.get(k):
                out[k] = ours[k]
            elif ours[k] != base.get(k) and theirs.get(k) != base.get(k) and isinstance(ours[k], str):
                b = base.get(k, ""); i = 0
                while i < min(len(b), len(ours[k])) and b[i] == ours[k][i]:
                    i += 1
                suf = ours[k][i:].strip()
                out[k] = theirs[k] + " " + suf if suf and suf not in theirs[k] else theirs[k]
        json.dump(out, open(f, "w"), indent=1); sh("git", "add", f)
    else:
        print("UNRESOLVED:", f)
left = sh("git", "diff", "--name-only", "--diff-filter=U").stdout.split()
if left:
    print("conflicts left:", left); sys.exit(1)
# known_findings may also have merged cleanly but both sides appended: make sure it is valid JSON
json.load(open("known_findings.json"))
subprocess.run(["/venv/bin/python", "tools/kf_normalize.py"])
subprocess.run(["/venv/bin/python", "harness/mkmanifest.py"])
sh("git", "add", "-A")
print(sh("git", "commit", "-qm", f"merge {br}").stdout)
print("merged", br)
