#!/usr/bin/env python3
"""tools/merge_claims.py <branch> <Cxx>... : resolve a conflicted harness/claims/Cxx.json of an in-progress merge of <branch>:
every string field that both sides extended from the common base keeps the branch's text followed by our suffix."""
import json, subprocess, sys
br = sys.argv[1]
def show(rev, path):
    return json.loads(subprocess.run(["git", "show", f"{rev}:{path}"], capture_output=True, text=True, cwd="/verif").stdout)
base_rev = subprocess.run(f"git merge-base HEAD {br}", shell=True, capture_output=True, text=True, cwd="/verif").stdout.strip()
for c in sys.argv[2:]:
    path = f"harness/claims/{c}.json"
    ours, theirs, base = show("HEAD", path), show(br, path), show(base_rev, path)
    out = dict(theirs)
    for k in ours:
        if ours[k] != base.get(k) and theirs.get(k) == base.get(k):
            out[k] = ours[k]
        elif ours[k] != base.get(k) and theirs.get(k) != base.get(k) and isinstance(ours[k], str):
            b = base.get(k, "")
            i = 0
            while i < min(len(b), len(ours[k])) and b[i] == ours[k][i]:
                i += 1
            out[k] = theirs[k] + " " + ours[k][i:].lstrip() if ours[k][i:].strip() and ours[k][i:].strip() not in theirs[k] else theirs[k]
    json.dump(out, open("/verif/" + path, "w"), indent=1)
    print(c, "merged")
