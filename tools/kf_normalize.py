#!/venv/bin/python
"""normalise known_findings.json after merges: one entry per (property, key); a fixed entry wins over an open one"""
import json
p='/verif/known_findings.json'
k=json.load(open(p)); out=[]; idx={}
for e in k:
    key=(e['property'],e['key'])
    if key not in idx:
        idx[key]=len(out); out.append(e)
    elif e['status']=='fixed' and out[idx[key]]['status']=='open':
        out[idx[key]]=e
json.dump(out,open(p,'w'),indent=1)
print(len(k),'->',len(out),'entries;', sum(1 for e in out if e['status']=='open'),'open')
