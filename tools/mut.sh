#!/bin/bash
# tools/mut.sh "<sed-expression>" <file-relative-to-repo> <property>...   : apply one mutation to a scratch
# worktree of /repo HEAD, run the named checks against it, clean up.
set -u
expr="$1"; file="$2"; shift 2
wt=/tmp/mutwt_$$
git -C /repo worktree add -q --detach $wt HEAD || exit 2
if [[ "$expr" == revert:* ]]; then git -C $wt revert --no-commit "${expr#revert:}" >/dev/null 2>&1; else sed -i "$expr" $wt/$file; fi
if git -C $wt diff --quiet HEAD; then echo "MUTATION DID NOT APPLY"; else git -C $wt diff HEAD | grep '^[+-]' | grep -v '^[+-][+-]'; fi
for p in "$@"; do
  VERIF_REPO=$wt ./check $p 2>&1 | grep -E "VIOLATION|^\[$p\]" | cut -c1-160 | awk 'NR<=3 || /^\[/'
done
git -C /repo worktree remove --force $wt
