#!/bin/bash
# tools/mut.sh "<sed-expression>" <file-relative-to-repo> <property>...   : apply one mutation to a scratch
# worktree of /repo HEAD, run the named checks against it, clean up.
set -u
expr="$1"; file="$2"; shift 2
wt=/tmp/mutwt_$$
git -C /repo worktree add -q --detach $wt HEAD || exit 2
sed -i "$expr" $wt/$file
if git -C $wt diff --quiet; then echo "MUTATION DID NOT APPLY"; else git -C $wt diff | grep '^[+-]' | grep -v '^[+-][+-]'; fi
for p in "$@"; do
  VERIF_REPO=$wt ./check $p 2>&1 | grep -E "VIOLATION|^\[$p\]" | cut -c1-160 | awk 'NR<=3 || /^\[/'
done
git -C /repo worktree remove --force $wt
