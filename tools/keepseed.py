#!/venv/bin/python
"""tools/keepseed.py <seed-dir> <i> <name> <caught_by> <note> : file a confirmed seeded change under /verif/seeded/<name>/"""
import json, os, shutil, sys, subprocess
sd, i, name, caught, note = sys.argv[1:6]
d = os.path.join("/verif/seeded", name); os.makedirs(d, exist_ok=True)
shutil.copy(f"{sd}/patch_{i}.diff", f"{d}/patch.diff"); shutil.copy(f"{sd}/demo_{i}.py", f"{d}/demo.py")
m = json.load(open(f"{sd}/meta_{i}.json"))
head = subprocess.run(["git", "-C", "/repo", "log", "-1", "--format=%h"], capture_output=True, text=True).stdout.strip()
meta = {"property": m.get("property"), "summary": m.get("summary"), "why_violation": m.get("why_violation"), "needs": m.get("needs"),
        "author": "independent sub-agent given only the property text and a scratch worktree of /repo",
        "confirmed_by_coordinator": {"repo_head": head, "demo_on_head": "exit 0", "demo_with_patch": "non-zero",
                                     "suite_with_patch": m.get("suite_result_with_change")},
        "ran": f"tools/seedtest.sh {sd} {i} <property>  (scratch worktree of /repo HEAD, VERIF_REPO=<worktree> ./check <property>)",
        "caught_by": caught, "note": note}
json.dump(meta, open(f"{d}/meta.json", "w"), indent=1)
print("kept", d)
