#!/bin/bash
# tools/runall_par.sh [seed] [jobs] : every claimed check's quick command, <jobs> at a time, one summary line each
seed=${1:-0}; jobs=${2:-4}
/venv/bin/python -c "import json; print('\n'.join(c['property_id'] for c in json.load(open('/verif/MANIFEST.json'))['checks']))" | \
 xargs -P $jobs -I{} bash -c "out=\$(VERIF_SEED=$seed ./check {} 2>&1); code=\$?; echo \"{} exit=\$code \$(echo \"\$out\" | grep -c '^VIOLATION') violations \$(echo \"\$out\" | grep -c '^KNOWN-FINDING') known | \$(echo \"\$out\" | grep '^\[{}\]' | sed 's/.*obligations/obligations/')\"" | sort
